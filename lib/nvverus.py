"""Verus pipeline: mechanically extract named items from /repo, apply the declared rewrite rules,
splice in the contracts from contracts/verus/*.vspec and run `verus file.rs`.

Rewrite rules (complete list, each application is logged in the evidence):
  R1  `pub(crate)` -> `pub`; a private `const` -> `pub const` (Verus rejects restricted consts in pub specs)
  R2  `max(`                        -> `max_u16(`   (exec fn with ensures r == if a >= b {a} else {b})
  R3  #[derive(..)] lists reduced to `Clone, Copy, PartialEq, Eq`; #[repr(align(8))], #[inline..] dropped;
      doc / line comments dropped
  R5  `<ident> == UNMATCHED` on ScoreCell -> field-wise comparison (Verus has no spec for derived PartialEq::eq)
Anything else in the extracted text is untouched.
"""
import os, re, json, subprocess, time, shutil


class ExtractError(Exception):
    pass


def find_item(src, kind, name):
    """returns the text of `const NAME ... ;` / `struct NAME {..}` / `fn NAME(..) {..}` by brace matching"""
    if kind == "const":
        m = re.search(r"^[ \t]*(?:pub(?:\([a-z]+\))?\s+)?const\s+%s\s*:[^;]*;" % re.escape(name), src, re.M)
        if not m:
            raise ExtractError("lost anchor: const %s" % name)
        return m.group(0)
    if kind in ("struct", "fn"):
        kw = "struct" if kind == "struct" else "fn"
        m = re.search(r"^([ \t]*(?:#\[[^\]]*\]\s*)*)[ \t]*(?:pub(?:\([a-z]+\))?\s+)?%s\s+%s\b" % (kw, re.escape(name)), src, re.M)
        if not m:
            raise ExtractError("lost anchor: %s %s" % (kw, name))
        start = m.start()
        i = src.index("{", m.end())
        depth = 0
        j = i
        while True:
            c = src[j]
            if c == "{":
                depth += 1
            elif c == "}":
                depth -= 1
                if depth == 0:
                    break
            j += 1
        return src[start:j + 1]
    raise ExtractError("unknown kind " + kind)


def rewrite(text, log):
    def sub(rx, rep, rule, t, flags=0):
        n = len(re.findall(rx, t, flags))
        if n:
            log.append("%s x%d" % (rule, n))
        return re.sub(rx, rep, t, flags=flags)

    text = sub(r"pub\(crate\)", "pub", "R1 pub(crate)->pub", text)
    text = sub(r"^(\s*)const ", r"\1pub const ", "R1 private const->pub const", text, re.M)
    text = sub(r"(?<![A-Za-z0-9_])max\(", "max_u16(", "R2 max->max_u16", text)
    text = sub(r"#\[derive\([^\)]*\)\]", "#[derive(Clone, Copy, PartialEq, Eq)]", "R3 derive list reduced", text)
    text = sub(r"#\[repr\(align\(8\)\)\]\n?", "", "R3 repr(align) dropped", text)
    text = sub(r"#\[inline(\([a-z]+\))?\]\n?", "", "R3 inline dropped", text)
    text = sub(r"^[ \t]*//[^\n]*\n", "", "R3 comment lines dropped", text, re.M)
    text = sub(r"[ \t]+//[^\n]*", "", "R3 trailing comments dropped", text)
    text = sub(r"(\w+) == UNMATCHED", lambda m: "(%s.score == UNMATCHED.score && %s.consecutive_bonus == UNMATCHED.consecutive_bonus && %s.matched == UNMATCHED.matched)" % (m.group(1), m.group(1), m.group(1)), "R5 struct == -> fieldwise", text)
    return text


def splice_contract(fn_text, contract):
    """insert `requires/ensures` text between the signature and the body; name the return value"""
    i = fn_text.index("{")
    sig = fn_text[:i].rstrip()
    body = fn_text[i:]
    ret = contract.get("ret")
    if ret:
        sig = re.sub(r"->\s*(.+)$", lambda m: "-> (%s: %s)" % (ret, m.group(1).strip()), sig, flags=re.S)
    return sig + "\n" + contract["clauses"].rstrip() + "\n" + body


def parse_vspec(path):
    """sections:  @extract <kind> <name> from <file>   /  @contract <fn> [ret <name>] ... @end  / @verbatim ... @end"""
    items, contracts, verbatim = [], {}, []
    cur = None
    for line in open(path):
        s = line.rstrip("\n")
        if s.startswith("@extract "):
            _, kind, name, _from, f = s.split()
            items.append((kind, name, f))
        elif s.startswith("@contract "):
            parts = s.split()
            cur = ("contract", parts[1], parts[3] if len(parts) > 3 and parts[2] == "ret" else None, [])
        elif s.startswith("@verbatim"):
            cur = ("verbatim", None, None, [])
        elif s.startswith("@end"):
            if cur[0] == "contract":
                contracts[cur[1]] = dict(ret=cur[2], clauses="\n".join(cur[3]))
            else:
                verbatim.append("\n".join(cur[3]))
            cur = None
        elif cur is not None:
            cur[3].append(s)
    return items, contracts, verbatim


def build(repo, vspec_path, out_path):
    items, contracts, verbatim = parse_vspec(vspec_path)
    log = []
    parts = []
    for kind, name, f in items:
        p = os.path.join(repo, f)
        if not os.path.isfile(p):
            raise ExtractError("lost anchor: file %s" % f)
        src = open(p).read()
        t = find_item(src, kind, name)
        t2 = rewrite(t, log)
        if kind == "fn" and name in contracts:
            t2 = splice_contract(t2, contracts[name])
        parts.append("// ---- extracted verbatim from %s: %s %s ----\n%s\n" % (f, kind, name, t2))
    text = "use vstd::prelude::*;\nverus! {\n" + "\n".join(verbatim[:1]) + "\n" + "\n".join(parts) + "\n" + "\n".join(verbatim[1:]) + "\n} // verus!\nfn main() {}\n"
    open(out_path, "w").write(text)
    return log


def run(cat, verif, repo, scratch, units):
    """all verus units of one property share one extracted file per vspec; each unit names the
    function/lemma whose obligations it stands for"""
    res = {}
    assumptions = []
    tools = {}
    by_spec = {}
    for u in units:
        by_spec.setdefault(u["vspec"], []).append(u)
    for vspec, us in by_spec.items():
        vpath = os.path.join(verif, "contracts", "verus", vspec)
        out = os.path.join(scratch, os.path.splitext(vspec)[0] + "_extracted.rs")
        try:
            log = build(repo, vpath, out)
        except ExtractError as e:
            for u in us:
                res[u["name"]] = dict(verdict="undecided", detail=str(e), duration_s=0)
            continue
        t0 = time.time()
        p = subprocess.run(["verus", out, "--output-json", "--time", "--multiple-errors", "20"], capture_output=True, text=True,
                           cwd=scratch, timeout=1800)
        wall = time.time() - t0
        js = None
        try:
            js = json.loads(p.stdout[p.stdout.index("{"):])
        except Exception:
            pass
        vr = (js or {}).get("verification-results", {})
        errs = p.stderr
        # map errors to functions: verus reports `error: postcondition not satisfied` with --> file:line
        text = open(out).read().split("\n")
        failing_fns = set()
        for m in re.finditer(r"-->\s*%s:(\d+):" % re.escape(out), errs):
            ln = int(m.group(1))
            # enclosing fn: search upwards
            k = ln - 1
            while k >= 0:
                mm = re.match(r"\s*(?:pub\s+)?(?:open\s+|closed\s+)?(?:proof\s+|spec\s+|exec\s+)?fn\s+(\w+)", text[k])
                if mm:
                    failing_fns.add(mm.group(1))
                    break
                k -= 1
        ok_all = bool(vr) and vr.get("success") is True
        tools["verus"] = (js or {}).get("verus", {}).get("version") if js else None
        for u in us:
            d = dict(duration_s=wall / max(1, len(us)), solver="z3 (Verus)", stats={"runtime_decision_procedure_s": ((js or {}).get("times-ms", {}).get("smt", {}) or {}).get("total", 0) / 1000.0 if js else None},
                     props={"total_properties": vr.get("verified", 0) + vr.get("errors", 0)}, output=(errs[-4000:] + "\n" + json.dumps(vr)))
            if not vr:
                d.update(verdict="undecided", detail="verus produced no verification result: " + errs[-500:].replace("\n", " | "))
            elif ok_all:
                d.update(verdict="discharged")
            else:
                mine = [f for f in u.get("verus_fns", []) if f in failing_fns]
                if mine:
                    d.update(verdict="violated", detail=["verus: obligation of `%s` not discharged" % f for f in mine])
                elif failing_fns:
                    d.update(verdict="discharged")
                else:
                    d.update(verdict="undecided", detail="verus failed without a locatable obligation: " + errs[-500:].replace("\n", " | "))
            if u.get("expect") == "fail":
                d["verdict"] = "canary-ok" if d["verdict"] == "violated" else ("canary-passed" if d["verdict"] == "discharged" else d["verdict"])
            res[u["name"]] = d
        for i, l in enumerate(open(out), 1):
            if re.search(r"external_body|assume_specification|\badmit\(|\bassume\(", l) and not l.strip().startswith("//"):
                assumptions.append("verus trusted item in %s (extracted file line %d): %s" % (vspec, i, l.strip()[:140]))
        assumptions.append("verus rewrite rules applied to the text extracted for %s: %s" % (vspec, "; ".join(log) or "none"))
        # keep a copy of the extracted file for the reader
        keep = os.path.join(verif, "generated")
        os.makedirs(keep, exist_ok=True)
        shutil.copy(out, os.path.join(keep, os.path.basename(out)))
    return res, assumptions, tools
