"""Driver for the contract-based verification of helix-editor/nucleo (see /verif/DESIGN.md).

Pipeline per run (always from /repo's *current working tree*):
  1. rsync /repo -> fresh scratch dir (outside /repo and /verif), removed on exit
  2. injection (adds lines only): harness/contract modules, contract attributes,
     [patch.crates-io] memchr shim
  3. cargo kani (function contracts + stubbing) on the selected obligations, in parallel
  4. Verus on mechanically extracted functions (obligations with engine == "verus")
  5. triage -> evidence/<ID>.json, replays/<ID>/..., exit code
"""
import sys, os, json, re, shutil, subprocess, time, tempfile, hashlib, resource, signal, importlib.util

VERIF = os.path.dirname(os.path.dirname(os.path.abspath(__file__)))
REPO = os.environ.get("NUCLEO_REPO", "/repo")
# where evidence/ and replays/ are written; only overridden by development runs against scratch
# worktrees (bin/seedtest) so that they do not clobber the evidence of the registered checks
OUT = os.environ.get("VERIF_OUT", VERIF)
CONTRACTS = os.path.join(VERIF, "contracts")
SHIM = os.path.join(VERIF, "shim", "memchr")
KANI_FLAGS = ["-Z", "function-contracts", "-Z", "stubbing", "-Z", "unstable-options"]
MEM_LIMIT_GB = int(os.environ.get("VERIF_MEM_GB", "16"))


def load_catalogue():
    spec = importlib.util.spec_from_file_location("catalogue", os.path.join(CONTRACTS, "catalogue.py"))
    m = importlib.util.module_from_spec(spec)
    spec.loader.exec_module(m)
    return m


class Undecided(Exception):
    pass


def log(*a):
    print(*a, file=sys.stderr, flush=True)


def _watchdog(pgid, stop, killed):
    """kills solver processes of our process group that exceed the per-process RSS limit
    (RLIMIT_AS cannot be used: rustc reserves more address space than that)"""
    lim_kb = (MEM_LIMIT_GB + 4) * (1 << 20)
    total_kb = int(os.environ.get("VERIF_TOTAL_MEM_GB", "44")) * (1 << 20)
    while not stop.wait(2.0):
        procs = []
        for d in os.listdir("/proc"):
            if not d.isdigit():
                continue
            try:
                st = open("/proc/%s/stat" % d).read()
                rp = st.rindex(")")
                f = st[rp + 2:].split()
                if int(f[2]) != pgid:
                    continue
                name = st[st.index("(") + 1:rp]
                rss = int(f[21]) * (os.sysconf("SC_PAGE_SIZE") // 1024)
                procs.append((rss, int(d), name))
            except Exception:
                continue
        solvers = [x for x in procs if x[2] in ("cbmc", "kissat", "cadical", "z3", "verus", "rust_verify", "goto-instrument")]
        for rss, pid, name in solvers:
            if rss > lim_kb:
                try:
                    os.kill(pid, signal.SIGKILL); killed.append((name, pid, rss))
                except Exception:
                    pass
        tot = sum(x[0] for x in procs)
        if tot > total_kb and solvers:
            rss, pid, name = max(solvers)
            try:
                os.kill(pid, signal.SIGKILL); killed.append((name, pid, rss))
            except Exception:
                pass


_WRAP_DIR = None


def cbmc_wrapper_dir():
    """a directory holding a `cbmc` wrapper that runs the real cbmc under an address-space limit, so
    that a query that outgrows its share of memory ends with CBMC's own out-of-memory exit (which
    kani-driver reports for that harness alone) instead of being killed (which makes kani-driver
    panic and lose the whole batch)"""
    global _WRAP_DIR
    if _WRAP_DIR and os.path.isdir(_WRAP_DIR):
        return _WRAP_DIR
    real = shutil.which("cbmc")
    if not real:
        return None
    d = tempfile.mkdtemp(prefix="nucleo-verif-bin.", dir=os.environ.get("VERIF_SCRATCH") or os.environ.get("TMPDIR") or "/var/tmp")
    w = os.path.join(d, "cbmc")
    with open(w, "w") as f:
        f.write("#!/bin/sh\nulimit -v %d 2>/dev/null\nexec %s \"$@\"\n" % (MEM_LIMIT_GB * 1024 * 1024, real))
    os.chmod(w, 0o755)
    _WRAP_DIR = d
    import atexit
    atexit.register(lambda: shutil.rmtree(d, ignore_errors=True))
    return d


def sh(cmd, cwd=None, timeout=None, env=None, limit_mem=True):
    import threading
    e = dict(os.environ)
    e.update({"CARGO_NET_OFFLINE": "true", "CARGO_TERM_COLOR": "never"})
    if limit_mem:
        wd = cbmc_wrapper_dir()
        if wd:
            e["PATH"] = wd + os.pathsep + e.get("PATH", "")
    if env:
        e.update(env)
    t0 = time.time()
    p = subprocess.Popen(cmd, cwd=cwd, env=e, stdout=subprocess.PIPE, stderr=subprocess.STDOUT, text=True,
                         errors="replace", start_new_session=True)
    stop = threading.Event()
    killed = []
    if limit_mem:
        th = threading.Thread(target=_watchdog, args=(p.pid, stop, killed), daemon=True)
        th.start()
    try:
        out, _ = p.communicate(timeout=timeout)
        rc = p.returncode
    except subprocess.TimeoutExpired:
        try:
            os.killpg(p.pid, signal.SIGKILL)
        except Exception:
            pass
        out, _ = p.communicate()
        rc = -9
    stop.set()
    if killed:
        out += "\n[watchdog] killed for exceeding the memory limit: %s\n" % killed
    return rc, out, time.time() - t0


# ---------------------------------------------------------------------------
# scratch copy + injection
# ---------------------------------------------------------------------------

def make_scratch():
    base = os.environ.get("VERIF_SCRATCH") or os.environ.get("TMPDIR") or "/var/tmp"
    os.makedirs(base, exist_ok=True)
    d = tempfile.mkdtemp(prefix="nucleo-verif.", dir=base)
    return d


def copy_repo(scratch):
    dst = os.path.join(scratch, "repo")
    rc, out, _ = sh(["rsync", "-a", "--exclude", "/target", "--exclude", ".git", REPO + "/", dst + "/"], limit_mem=False)
    if rc != 0:
        raise Undecided("rsync of %s failed: %s" % (REPO, out[-400:]))
    return dst


def inject(cat, dst, scratch, modules, extra_tests=None):
    """Adds lines only.  Returns a list describing every injection (for the evidence)."""
    done = []
    cdir = os.path.join(scratch, "contracts")
    os.makedirs(cdir, exist_ok=True)
    # generated files (oracles) live next to the contract files
    gen = os.path.join(VERIF, "generated")
    for m in modules:
        info = cat.MODULES[m]
        src = os.path.join(CONTRACTS, info["file"])
        tgt = os.path.join(cdir, os.path.basename(info["file"]))
        text = open(src).read()
        text = text.replace("@GENERATED@", gen)
        # harnesses instantiated from the catalogue (generic contract fn + concrete shape)
        gen_h = []
        for u in cat.UNITS:
            if u.get("module") == m and u.get("call"):
                attrs = "#[kani::proof]\n"
                if u.get("should_panic"):
                    attrs += "#[kani::should_panic]\n"
                if u.get("unwind"):
                    attrs += "#[kani::unwind(%d)]\n" % u["unwind"]
                if u.get("solver"):
                    attrs += "#[kani::solver(%s)]\n" % u["solver"]
                for st in u.get("stubs", []):
                    attrs += "#[kani::stub(%s, %s)]\n" % (st[0], st[1])
                for sv in u.get("stub_verified", []):
                    attrs += "#[kani::stub_verified(%s)]\n" % sv
                gen_h.append("%sfn %s() {\n    %s;\n}\n" % (attrs, u["harness"], u["call"]))
        if gen_h:
            text += "\n// ---- harnesses instantiated from contracts/catalogue.py ----\n" + "\n".join(gen_h)
        if extra_tests and m in extra_tests:
            text += "\n" + extra_tests[m] + "\n"
        open(tgt, "w").write(text)
        f = os.path.join(dst, info["inject"])
        if not os.path.isfile(f):
            raise Undecided("lost anchor: file %s not found in the working tree" % info["inject"])
        line = '\n#[cfg(kani)]\n#[path = "%s"]\npub(crate) mod verif_%s;\n' % (tgt, m)
        with open(f, "a") as fh:
            fh.write(line)
        done.append("module verif_%s appended to %s" % (m, info["inject"]))
    # attribute injection (function contracts placed on the real functions)
    for a in getattr(cat, "ATTRS", []):
        if a["module"] not in modules:
            continue
        f = os.path.join(dst, a["file"])
        if not os.path.isfile(f):
            raise Undecided("lost anchor: file %s not found" % a["file"])
        lines = open(f).read().split("\n")
        hits = [i for i, l in enumerate(lines) if a["anchor"] in l]
        if len(hits) != 1:
            raise Undecided("lost anchor: %r found %d times in %s" % (a["anchor"], len(hits), a["file"]))
        i = hits[0]
        # step over attributes / doc comments directly above the fn
        while i > 0 and (lines[i - 1].strip().startswith("#[") or lines[i - 1].strip().startswith("///")):
            i -= 1
        indent = re.match(r"\s*", lines[hits[0]]).group(0)
        new = [indent + "#[cfg_attr(kani, %s)]" % x for x in a["attrs"]]
        lines[i:i] = new
        open(f, "w").write("\n".join(lines))
        done.append("%d contract attribute(s) above `%s` in %s" % (len(new), a["anchor"], a["file"]))
    # inserted hook lines (small cfg(kani) helpers inside impl blocks the harnesses cannot reach otherwise)
    for h in getattr(cat, "HOOKS", []):
        if h["module"] not in modules:
            continue
        f = os.path.join(dst, h["file"])
        if not os.path.isfile(f):
            raise Undecided("lost anchor: file %s not found" % h["file"])
        with open(f, "a") as fh:
            fh.write("\n" + h["text"] + "\n")
        done.append("cfg(kani) helper appended to %s: %s" % (h["file"], h["what"]))
    # memchr shim
    ws = os.path.join(dst, "Cargo.toml")
    with open(ws, "a") as fh:
        fh.write('\n[patch.crates-io]\nmemchr = { path = "%s" }\n' % SHIM)
    done.append("[patch.crates-io] memchr -> naive reference shim (%s)" % SHIM)
    # loop-contract feature gates etc. are not used
    return done


# ---------------------------------------------------------------------------
# Kani
# ---------------------------------------------------------------------------

def full_name(cat, u):
    parent = cat.MODULES[u["module"]]["parent"]
    return (parent + "::" if parent else "") + "verif_%s::%s" % (u["module"], u["harness"])


def run_kani(cat, dst, scratch, pkg, units, timeout, jobs, feats="", cargs=""):
    out_json = os.path.join(scratch, "kani-%s-%d.json" % (pkg, int(time.time() * 1000) % 100000))
    cmd = ["cargo", "kani", "-p", pkg] + KANI_FLAGS + ["-j", str(jobs), "--output-format", "terse",
           "--harness-timeout", str(timeout), "--export-json", out_json, "--exact"]
    if feats:
        cmd += feats.split()
    for u in units:
        cmd += ["--harness", full_name(cat, u)]
    if cargs:
        cmd += ["--cbmc-args"] + cargs.split()  # must be the last flag
    rc, out, wall = sh(cmd, cwd=dst, timeout=timeout * max(1, (len(units) + jobs - 1) // jobs) + 900)
    res = {}
    data = None
    if os.path.isfile(out_json):
        try:
            data = json.load(open(out_json))
        except Exception:
            data = None
    try:
        open(os.path.join(os.environ.get("VERIF_LOGDIR", "/var/tmp"), "nucleo-verif-last-%s.log" % pkg), "w").write(out)
    except Exception:
        pass
    if data is None:
        # compilation failed or kani crashed
        tail = "\n".join(out.strip().split("\n")[-40:])
        kind = "compile-error" if ("error[" in out or "error:" in out) else "kani-failure"
        raise Undecided("%s in package %s (no verification result produced):\n%s" % (kind, pkg, tail))
    by = {r["harness_id"]: r for r in data.get("verification_results", {}).get("results", [])}
    stats = {c["harness_id"]: (c.get("cbmc_stats") or {}) for c in (data.get("cbmc") or [])}
    conf = {c["harness_id"]: (c.get("configuration") or {}) for c in (data.get("cbmc") or [])}
    pd = {c["harness_id"]: (c.get("property_details") or {}) for c in (data.get("property_details") or [])}
    for u in units:
        fn = full_name(cat, u)
        r = by.get(fn)
        if r is None:
            res[u["name"]] = dict(status="missing", checks=[], reason="harness %s not found / not executed" % fn)
            continue
        checks = r.get("checks") or []
        res[u["name"]] = dict(status=r.get("status"), duration_s=(r.get("duration_ms") or 0) / 1000.0, checks=checks,
                              stats=stats.get(fn, {}), solver=conf.get(fn, {}).get("solver"), props=pd.get(fn, {}))
    return res, out, wall, data.get("tools", {})


BENIGN_FAIL_CATEGORIES = {"unwind", "unsupported_construct"}


def triage(u, r):
    """returns (verdict, detail) with verdict in discharged | violated | undecided | canary-ok | canary-passed"""
    expect = u.get("expect", "pass")
    if r["status"] == "missing":
        return "undecided", r["reason"]
    checks = r["checks"]
    failed = [c for c in checks if c.get("status") == "Failure"]
    undet = [c for c in checks if c.get("status") in ("Undetermined", "SolverError")]
    covers = [c for c in checks if c.get("category") == "cover"]
    unsat_cov = [c for c in covers if c.get("status") not in ("Satisfied",)]
    if r["status"] not in ("Success", "Failure"):
        return "undecided", "harness status %s (timeout / out of memory / tool error)" % r["status"]
    if not checks:
        return "undecided", "no checks reported (timeout, out of memory or tool error)"
    benign = [c for c in failed if c.get("category") in BENIGN_FAIL_CATEGORIES or "unwinding assertion" in c.get("description", "")]
    real = [c for c in failed if c not in benign]
    if u.get("should_panic"):
        # the contract is "this call panics": Kani reports Success iff a panic (and nothing else) occurred
        if benign:
            return "undecided", "only unwinding / unsupported-construct checks failed: " + describe(benign[0])
        if r["status"] == "Success":
            return "discharged", ""
        return "violated", [dict(description="expected panic did not occur (or a non-panic failure occurred): " + u.get("desc", ""), category="should_panic", function=u.get("harness"), location={})] + real
    if expect == "fail":
        if real:
            return "canary-ok", describe(real[0])
        return "canary-passed", "canary harness did not fail: the run cannot be trusted"
    if real:
        return "violated", real
    if benign:
        return "undecided", "only unwinding / unsupported-construct checks failed: " + describe(benign[0])
    if undet:
        return "undecided", "undetermined checks: " + describe(undet[0])
    if r["status"] != "Success":
        return "undecided", "harness reported %s without a failed check" % r["status"]
    if unsat_cov:
        return "undecided", "vacuous harness: cover not satisfied: " + describe(unsat_cov[0])
    if not covers and not u.get("no_cover"):
        return "undecided", "harness has no reachability cover"
    return "discharged", ""


def describe(c):
    loc = c.get("location", {})
    return "%s [%s] in %s (%s:%s)" % (c.get("description"), c.get("category"), c.get("function"), loc.get("file"), loc.get("line"))


def concrete_playback(cat, dst, scratch, pkg, units, timeout):
    """re-run the failing harnesses with concrete playback (one cargo-kani process per harness, run
    concurrently: --concrete-playback is incompatible with --jobs); returns {unit name: [test sources]}"""
    import concurrent.futures

    def one(u):
        cmd = ["cargo", "kani", "-p", pkg] + KANI_FLAGS + ["-Z", "concrete-playback", "--concrete-playback=print",
               "--output-format", "terse", "--harness-timeout", str(timeout), "--exact", "--harness", full_name(cat, u)]
        if u.get("features"):
            cmd += u["features"].split()
        if u.get("cbmc_args"):
            cmd += ["--cbmc-args"] + u["cbmc_args"].split()
        rc, out, wall = sh(cmd, cwd=dst, timeout=timeout + 900)
        tests = [t for t in re.findall(r"```\n(.*?)```", out, re.S) if "concrete_playback_run" in t]
        return u["name"], tests, out

    res, outs = {}, {}
    with concurrent.futures.ThreadPoolExecutor(max_workers=min(8, len(units))) as ex:
        for name, tests, out in ex.map(one, units):
            res[name] = tests
            outs[name] = out
    return res, outs


def native_replay(cat, pkg, tests_by_module, feats=""):
    """fresh scratch from the current /repo, inject the modules + the generated #[test]s and run them
    natively (no verifier involved).  returns ({test name: status}, output); a test counts as
    `reproduced` only if it fails with a panic raised in the contract file or in the crate's own
    sources (not inside the playback machinery)."""
    scratch = make_scratch()
    try:
        dst = copy_repo(scratch)
        mods = deps_closure(cat, sorted(tests_by_module))
        # (`Vec` is shadowed inside src/boxcar.rs)
        inject(cat, dst, scratch, mods, extra_tests={m: "\n".join(ts).replace("Vec<Vec<u8>>", "std::vec::Vec<std::vec::Vec<u8>>") for m, ts in tests_by_module.items()})
        cmd = ["cargo", "kani", "playback", "-Z", "concrete-playback", "-p", pkg]
        if feats:
            cmd += feats.split()
        cmd += ["--", "kani_concrete_playback", "--test-threads", "4"]
        rc, out, wall = sh(cmd, cwd=dst, timeout=1800, env={"RUST_BACKTRACE": "0"})
        status = {}
        for m in re.finditer(r"^test (\S+) \.\.\. (\w+)", out, re.M):
            name = m.group(1).split("::")[-1]
            status[name] = "not-reproduced" if m.group(2) == "ok" else "failed"
        # where did each failing test panic?
        for m in re.finditer(r"---- (\S+) stdout ----\n(.*?)(?=\n---- |\nfailures:|\Z)", out, re.S):
            name = m.group(1).split("::")[-1]
            body = m.group(2)
            pm = re.search(r"panicked at ([^\n]+?):(\d+):(\d+):\n([^\n]*)", body)
            if status.get(name) == "failed":
                if pm and ("/kani/library" in pm.group(1) or "concrete_playback" in pm.group(1)):
                    status[name] = "playback-machinery-panic: " + pm.group(4)[:200]
                else:
                    status[name] = "reproduced" + (": panicked at %s:%s: %s" % (pm.group(1), pm.group(2), pm.group(4)[:300]) if pm else "")
        return status, out
    finally:
        shutil.rmtree(scratch, ignore_errors=True)


def deps_closure(cat, modules):
    out = []

    def visit(m):
        if m in out:
            return
        for d in cat.MODULES[m].get("needs", []):
            visit(d)
        out.append(m)

    for m in modules:
        visit(m)
    return out


# ---------------------------------------------------------------------------
# assumption scan (mechanical)
# ---------------------------------------------------------------------------

SCAN = [
    (r"kani::assume\(", "kani::assume"),
    (r"#\[kani::stub\(", "kani::stub"),
    (r"stub_verified", "kani::stub_verified"),
    (r"external_body", "verus external_body"),
    (r"assume_specification", "verus assume_specification"),
    (r"\badmit\(", "verus admit"),
    (r"\bassume\(", "verus assume"),
]


def scan_assumptions(files):
    found = []
    for f in files:
        if not os.path.isfile(f):
            continue
        for n, l in enumerate(open(f), 1):
            s = l.strip()
            if s.startswith("//"):
                continue
            for rx, label in SCAN:
                if re.search(rx, l):
                    if label == "verus assume" and "kani::assume" in l:
                        continue
                    found.append("%s at %s:%d: %s" % (label, os.path.relpath(f, VERIF), n, s[:140]))
                    break
    return found


# ---------------------------------------------------------------------------
# known findings
# ---------------------------------------------------------------------------

def load_findings():
    p = os.path.join(VERIF, "known_findings.json")
    if not os.path.isfile(p):
        return {"known": [], "fixed": []}
    return json.load(open(p))


# ---------------------------------------------------------------------------
# main check
# ---------------------------------------------------------------------------

QUICK_UNIT_MAX_S = 250      # an obligation measured slower than this (on a loaded 16-core box) is thorough-only
QUICK_BUDGET_CPU_S = 2000   # summed measured time of a property's quick tier (~4 min wall at -j 12)
QUICK_MAX_UNITS = 36        # kani-compiler generates code for the harnesses one after the other (~4 s each)


def measured_times():
    p = os.path.join(CONTRACTS, "measured_times.json")
    try:
        return json.load(open(p))
    except Exception:
        return {}


NOT_RUN = []


def thorough_times():
    p = os.path.join(CONTRACTS, "thorough_times.json")
    try:
        return json.load(open(p))
    except Exception:
        return {}


def thorough_feasible(u):
    if u["engine"] != "kani" or u.get("expect") == "fail" or u.get("core"):
        return True
    t = measured_times().get(u["name"])
    if t is not None and t < 9999:
        return True
    tt = thorough_times().get(u["name"])
    return bool(tt and tt.get("finished"))


def select_units(cat, prop, tier, only=None):
    us = _select_units(cat, prop, tier, only)
    if only or os.environ.get("VERIF_NO_TIME_FILTER"):
        return us
    if tier != "quick":
        # thorough tier = every obligation of the property that is known to finish (any verdict)
        # within the thorough per-obligation limits on the reference machine; the ones that never
        # finished there (time or memory) are reported as not run, not as undecided
        keep, skipped = [], []
        for u in us:
            (keep if thorough_feasible(u) else skipped).append(u)
        NOT_RUN[:] = [u["name"] for u in skipped]
        return keep
    # quick tier = the obligations that are known (measured) to be cheap, most important first,
    # within a CPU budget; everything else of the property runs in the thorough tier
    times = measured_times()
    keep, rest = [], []
    for u in us:
        t = times.get(u["name"])
        if u.get("expect") == "fail" or u["engine"] != "kani" or u.get("core"):
            keep.append(u)
        elif t is not None and t <= QUICK_UNIT_MAX_S:
            rest.append((0 if u.get("core") else 1, t, u))
    # diversity first: obligations are grouped into families (name up to the shape suffix) and taken
    # round-robin, cheapest shape of each family first, until the unit cap or the CPU budget is hit
    import re as _re
    fam = {}
    for pr, t, u in rest:
        key = _re.sub(r"-(h\d+|l\d+|\d+)(-.*)?$", "", u["name"])
        fam.setdefault(key, []).append((t, u))
    for k in fam:
        fam[k].sort(key=lambda x: x[0])
    spent = sum(min(times.get(u["name"], 0), 600) for u in keep)
    progress = True
    while progress:
        progress = False
        for k in sorted(fam, key=lambda k: fam[k][0][0] if fam[k] else 1e9):
            if not fam[k]:
                continue
            t, u = fam[k][0]
            if len(keep) >= QUICK_MAX_UNITS:
                break
            if spent + t > QUICK_BUDGET_CPU_S:
                fam[k] = []
                continue
            fam[k].pop(0)
            keep.append(u)
            spent += t
            progress = True
    order = {u["name"]: i for i, u in enumerate(us)}
    keep.sort(key=lambda u: order[u["name"]])
    return keep


def _select_units(cat, prop, tier, only=None):
    us = []
    for u in cat.UNITS:
        t = u["props"].get(prop)
        if t is None:
            continue
        if t == "thorough" and tier != "thorough":
            continue
        # a property's tiers hold the obligations for which it is the primary (first listed) property
        # + the cheap ones + canaries (an obligation that bears on several properties is run, and
        # counted, under its primary one; the others reference it in DESIGN 0.4)
        if next(iter(u["props"])) != prop and u.get("cost", 1) > 2 and u.get("expect") != "fail" and not u.get("core"):
            continue
        if t == "quick-only" and tier != "quick":
            continue
        if only and u["name"] not in only:
            continue
        us.append(u)
    return us


def check(prop, tier, only=None, keep=False):
    t_start = time.time()
    cat = load_catalogue()
    seed = int(os.environ.get("VERIF_SEED", "0") or 0)
    if prop not in cat.PROPERTIES:
        print("property %s is not claimed by this framework (see MANIFEST.not_applicable)" % prop)
        return 2
    units = select_units(cat, prop, tier, only)
    if not units:
        print("no obligations registered for %s at tier %s" % (prop, tier))
        return 2
    if NOT_RUN:
        print("[check] %d registered obligation(s) not run in this tier (never finished within the thorough limits on the "
              "reference machine): %s" % (len(NOT_RUN), ", ".join(NOT_RUN)))
    findings = load_findings()
    # a listed finding is identified by its id; an obligation that re-confirms it may also run under
    # another property's tier
    known = list(findings.get("known", []))
    scratch = make_scratch()
    ev_units = []
    pending = []
    violations = []
    undecided = []
    known_lines = []
    assumptions = []
    injected = []
    tools = {}
    trusted = list(cat.TRUSTED_BASE)
    try:
        dst = copy_repo(scratch)
        kani_units = [u for u in units if u["engine"] == "kani"]
        verus_units = [u for u in units if u["engine"] == "verus"]
        native_units = [u for u in units if u["engine"] == "native"]
        results = {}
        if kani_units or native_units:
            mods = deps_closure(cat, sorted({u["module"] for u in kani_units + native_units if u.get("module")}))
            pre = getattr(cat, "pre_run", None)
            if pre:
                pre(VERIF, REPO, mods)
            injected = inject(cat, dst, scratch, mods)
            files = [os.path.join(CONTRACTS, cat.MODULES[m]["file"]) for m in mods]
            assumptions += scan_assumptions(files)
            for st in sorted({tuple(x) for u in kani_units for x in u.get("stubs", [])}):
                assumptions.append("kani::stub declared in the catalogue: %s replaced by %s" % st)
            for sv in sorted({x for u in kani_units for x in u.get("stub_verified", [])}):
                assumptions.append("kani::stub_verified declared in the catalogue: calls to %s are replaced by its function contract (precondition asserted at the call site, postcondition assumed); the contract itself is discharged by its proof_for_contract obligation" % sv)
        if kani_units:
            pkgs = sorted({cat.MODULES[u["module"]]["pkg"] for u in kani_units})
            jobs = int(os.environ.get("VERIF_JOBS", "0") or 0) or min(12, max(1, len(kani_units)))
            timeout = max(u.get("timeout", 600) for u in kani_units)
            if tier == "thorough":
                timeout = max(timeout, 1800)
            else:
                # the quick tier only holds obligations measured well below this; a harness that
                # needs longer on this machine is reported undecided instead of blocking the run
                timeout = min(timeout, 600)
            if os.environ.get("VERIF_HARNESS_TIMEOUT"):
                timeout = int(os.environ["VERIF_HARNESS_TIMEOUT"])
            groups = sorted({(cat.MODULES[u["module"]]["pkg"], u.get("features", ""), u.get("cbmc_args", "")) for u in kani_units})
            for pkg, feats, cargs in groups:
                pu = [u for u in kani_units if cat.MODULES[u["module"]]["pkg"] == pkg and u.get("features", "") == feats and u.get("cbmc_args", "") == cargs]
                # seed only permutes scheduling order
                if seed:
                    pu = pu[seed % len(pu):] + pu[:seed % len(pu)]
                # long obligations first
                pu.sort(key=lambda u: -u.get("cost", 1))
                log("[check] kani: %d obligation(s) in %s, -j %d, harness timeout %ds" % (len(pu), pkg, min(jobs, len(pu)), timeout))
                # batches bound kani-driver's memory: it keeps every harness's parsed CBMC output until the
                # end (measured: 8 GB for 36 quick obligations, 17 GB for 40 thorough ones)
                chunk = int(os.environ.get("VERIF_CHUNK", "40" if tier == "quick" else "12"))
                nb = max(1, (len(pu) + chunk - 1) // chunk)
                if tier == "quick":
                    queue = [(pu[i::nb], False) for i in range(nb)]
                else:
                    # a batch lasts as long as its slowest obligation: put obligations of similar
                    # (recorded) duration into the same batch, longest first
                    _mt, _tt = measured_times(), thorough_times()
                    def _dur(u):
                        a = _mt.get(u["name"])
                        if a is not None and a < 9999:
                            return a
                        return (_tt.get(u["name"]) or {}).get("wall_s") or 60 * u.get("cost", 1)
                    pu.sort(key=lambda u: -_dur(u))
                    size = (len(pu) + nb - 1) // nb
                    queue = [(pu[i:i + size], False) for i in range(0, len(pu), size)]
                bi = 0
                starved = []
                while queue:
                    batch, is_retry = queue.pop(0)
                    bi += 1
                    log("[check]   batch %d (%d more queued): %d obligation(s)%s" % (bi, len(queue), len(batch), " [retry]" if is_retry else ""))
                    try:
                        res, out, wall, tl = run_kani(cat, dst, scratch, pkg, batch, timeout, min(jobs, len(batch)), feats, cargs)
                    except Undecided as e:
                        if "compile-error" in str(e):
                            raise
                        # kani-driver itself died (killed by the kernel's out-of-memory killer, or after one
                        # of its solvers was killed).  Once: run the lost obligations again in batches of 3;
                        # after that they are undecided.  The other batches still count.
                        res, tl = {}, {}
                        if not is_retry and len(batch) > 1:
                            log("[check]   batch lost (%s); retrying its obligations in batches of 3" % str(e)[-120:].replace("\n", " | "))
                            queue = [(batch[i:i + 3], True) for i in range(0, len(batch), 3)] + queue
                        else:
                            for u in batch:
                                res[u["name"]] = dict(status="missing", checks=[], reason="batch lost: " + str(e)[-300:].replace("\n", " | "))
                    tools.update(tl)
                    # an obligation that came back without any check result well before its time limit was
                    # killed for memory (by CBMC's own address-space limit or by the group watchdog when many
                    # large queries peak together): run it again, once, at the end with three solvers at a time
                    if not is_retry:
                        for u in batch:
                            r = res.get(u["name"])
                            if r and r.get("status") != "missing" and not r.get("checks") and (r.get("duration_s") or 0) < 0.9 * timeout:
                                starved.append(u)
                                res.pop(u["name"])
                    results.update(res)
                    if not queue and starved:
                        log("[check]   %d obligation(s) came back without a result before their time limit; running them again 3 at a time" % len(starved))
                        queue = [(starved[i:i + 3], True) for i in range(0, len(starved), 3)]
                        starved = []
        if verus_units:
            import nvverus
            vres, vassume, vtools = nvverus.run(cat, VERIF, REPO, scratch, verus_units)
            results.update(vres)
            assumptions += vassume
            tools.update(vtools)
        if native_units:
            import nvnative
            nres = nvnative.run(cat, VERIF, REPO, dst, scratch, native_units)
            results.update(nres)

        os.makedirs(os.path.join(OUT, "replays", prop), exist_ok=True)
        for u in units:
            r = results.get(u["name"])
            if r is None:
                undecided.append((u, "no result"))
                continue
            if u["engine"] in ("verus", "native"):
                verdict, detail = r["verdict"], r.get("detail", "")
            else:
                verdict, detail = triage(u, r)
            expect = u.get("expect", "pass")
            entry = dict(obligation=u["name"], engine=u["engine"], harness=u.get("harness"), kind=u["kind"],
                         bound=u.get("bound"), functions=u.get("functions", []), statement=u.get("desc", ""),
                         verdict=verdict, wall_s=round(r.get("duration_s", 0), 2), solver=r.get("solver"),
                         solver_s=(r.get("stats") or {}).get("runtime_decision_procedure_s"),
                         cbmc_properties=(r.get("props") or {}).get("total_properties"),
                         vccs=(r.get("stats") or {}).get("vccs_generated"), expect=expect)
            if verdict == "violated" and expect.startswith("known:"):
                fid = expect.split(":", 1)[1]
                k = [x for x in known if x["id"] == fid]
                if k:
                    line = "KNOWN-FINDING: property=%s %s" % (prop, k[0]["what"])
                    if line not in known_lines:
                        known_lines.append(line)
                    entry["verdict"] = "known-finding-confirmed"
                    ev_units.append(entry)
                    continue
                # not listed -> real violation
            if verdict == "discharged" and expect.startswith("known:"):
                entry["verdict"] = "known-finding-not-reproduced"
                ev_units.append(entry)
                continue
            if verdict == "violated":
                pending.append((u, r, detail, entry))
            elif verdict in ("undecided", "canary-passed"):
                undecided.append((u, detail))
                entry["reason"] = detail if isinstance(detail, str) else str(detail)
            ev_units.append(entry)
        if pending:
            log("[check] %d violated obligation(s): extracting counterexamples and replaying natively" % len(pending))
            for (u, rp), (_, _, _, entry) in zip(handle_violations(cat, prop, [(u, r, d) for u, r, d, _ in pending], dst, scratch), pending):
                violations.append((u, rp))
                entry["replay"] = rp["path"]
                entry["failed_checks"] = rp["failed_checks"][:5]
                entry["native_replay"] = rp.get("native_replay")
        rc = 0
        if violations:
            rc = 1
        elif undecided:
            rc = 2
    except Undecided as e:
        undecided.append((dict(name="(setup)"), str(e)))
        rc = 2
    finally:
        if keep or os.environ.get("VERIF_KEEP"):
            log("[check] scratch kept at", scratch)
        else:
            shutil.rmtree(scratch, ignore_errors=True)

    wall = time.time() - t_start
    write_evidence(cat, prop, tier, seed, units, ev_units, violations, undecided, known_lines, assumptions, injected,
                   trusted, tools, wall)
    for l in known_lines:
        print(l)
    for u, why in undecided:
        print("UNDECIDED property=%s obligation=%s reason=%s" % (prop, u["name"], (why if isinstance(why, str) else str(why)).replace("\n", " | ")[:600]))
    for u, rp in violations:
        tail = "" if rp["reproduced"] else " obligation=%s no-failing-input-found" % u["name"]
        print("VIOLATION property=%s replay=%s%s" % (prop, rp["path"], tail))
    n_ok = sum(1 for e in ev_units if e["verdict"] in ("discharged", "canary-ok"))
    print("[check] %s tier=%s: %d obligation(s), %d discharged, %d violated, %d undecided, %d known finding(s); %.0fs"
          % (prop, tier, len(units), n_ok, len(violations), len(undecided), len(known_lines), wall))
    return rc


def handle_violations(cat, prop, items, dst, scratch):
    """items: list of (unit, result, failed-checks).  Writes one replay file per violated obligation."""
    out = []
    kani_items = [(u, r, f) for (u, r, f) in items if u["engine"] == "kani"]
    tests = {}
    kout = {}
    for pkg in sorted({cat.MODULES[u["module"]]["pkg"] for u, _, _ in kani_items}):
        us = [u for u, _, _ in kani_items if cat.MODULES[u["module"]]["pkg"] == pkg]
        t, o = concrete_playback(cat, dst, scratch, pkg, us, max(u.get("timeout", 600) for u in us))
        tests.update(t)
        for u in us:
            oo = o.get(u["name"], "")
            kout[u["name"]] = "\n".join(l for l in oo.split("\n") if not l.startswith("warning") and "-->" not in l and not re.match(r"^\s*(\d+)?\s*\|", l))
    # a harness without symbolic inputs yields no generated test: synthesize one with no values
    # (if the harness does draw values, the playback machinery panics and it counts as not reproduced)
    for u, _, _ in kani_items:
        if not tests.get(u["name"]) and u.get("harness"):
            tests[u["name"]] = ["#[test]\nfn kani_concrete_playback_%s_novalues() {\n    let concrete_vals: Vec<Vec<u8>> = vec![];\n    kani::concrete_playback_run(concrete_vals, %s);\n}\n" % (u["harness"], u["harness"])]
    # one native run per (package, feature set) with all generated tests
    native = {}
    nout = {}
    for pkg, feats in sorted({(cat.MODULES[u["module"]]["pkg"], u.get("features", "")) for u, _, _ in kani_items}):
        by_mod = {}
        for u, _, _ in kani_items:
            if cat.MODULES[u["module"]]["pkg"] != pkg or u.get("features", "") != feats:
                continue
            for t in tests.get(u["name"], []):
                by_mod.setdefault(u["module"], []).append(t)
        if by_mod:
            try:
                st, o = native_replay(cat, pkg, by_mod, feats)
            except Undecided as e:
                st, o = {}, str(e)
            native.update(st)
            nout[pkg] = o
    for u, r, failed in items:
        pkg = cat.MODULES[u["module"]]["pkg"] if u["engine"] == "kani" else None
        fc = [describe(c) if isinstance(c, dict) else str(c) for c in failed] if isinstance(failed, list) else [str(failed)]
        rp = dict(property=prop, obligation=u["name"], engine=u["engine"], harness=u.get("harness"), module=u.get("module"),
                  package=pkg, statement=u.get("desc", ""), functions=u.get("functions", []), failed_checks=fc,
                  features=u.get("features", ""), reproduced=False, test_name=None, test_source=None, verifier_output=None,
                  repo_head=git_head(), created=time.strftime("%Y-%m-%dT%H:%M:%S"))
        if u["engine"] == "kani":
            rp["verifier_output"] = kout.get(u["name"], "")[-8000:]
            rp["native_replay"] = "no concrete test was generated"
            for t in tests.get(u["name"], []):
                m = re.search(r"fn (kani_concrete_playback_\w+)\(", t)
                if not m:
                    continue
                st = native.get(m.group(1), "not run")
                if rp["test_source"] is None or st.startswith("reproduced"):
                    rp["test_name"], rp["test_source"], rp["native_replay"] = m.group(1), t, st
                if st.startswith("reproduced"):
                    rp["reproduced"] = True
                    break
        else:
            rp["verifier_output"] = r.get("output", "")[-8000:]
            w = r.get("witness")
            if w:
                rp["witness"] = w
                rp["reproduced"] = bool(w.get("reproduced"))
        path = os.path.join(OUT, "replays", prop, "%s.json" % u["name"])
        rp["path"] = path
        json.dump(rp, open(path, "w"), indent=1)
        out.append((u, rp))
    return out


def git_head():
    try:
        return subprocess.run(["git", "-C", REPO, "rev-parse", "HEAD"], capture_output=True, text=True).stdout.strip()
    except Exception:
        return None


def write_evidence(cat, prop, tier, seed, units, ev_units, violations, undecided, known_lines, assumptions, injected,
                   trusted, tools, wall):
    info = cat.PROPERTIES[prop]
    complete = [e for e in ev_units if e["kind"] == "complete" and e.get("expect", "pass") == "pass"]
    bounded = [e for e in ev_units if e["kind"] == "bounded" and e.get("expect", "pass") == "pass"]
    verus = [e for e in ev_units if e["engine"] == "verus" and e.get("expect", "pass") == "pass"]
    counted = [e for e in ev_units if e.get("expect", "pass") == "pass"]
    discharged = [e for e in counted if e["verdict"] == "discharged"]
    fns = sorted({f for e in ev_units for f in e.get("functions", [])})
    samples = [dict(obligation=e["obligation"], statement=e["statement"], kind=e["kind"], bound=e["bound"],
                    engine=e["engine"], verdict=e["verdict"]) for e in ev_units[:6]]
    cov = dict(
        obligations=len(counted),
        discharged=len(discharged),
        obligations_complete=len(complete),
        obligations_complete_discharged=len([e for e in complete if e["verdict"] == "discharged"]),
        obligations_bounded=len(bounded),
        obligations_bounded_discharged=len([e for e in bounded if e["verdict"] == "discharged"]),
        obligations_verus=len(verus),
        canaries=len([e for e in ev_units if e.get("expect") == "fail"]),
        canaries_failed_as_required=len([e for e in ev_units if e["verdict"] == "canary-ok"]),
        known_findings_confirmed=len(known_lines),
        cbmc_properties_checked=sum(e.get("cbmc_properties") or 0 for e in ev_units),
        vccs_generated=sum(e.get("vccs") or 0 for e in ev_units),
        solver_time_s=round(sum(e.get("solver_s") or 0 for e in ev_units), 2),
        functions_under_contract=fns,
        checker_cmd="cargo kani -p <pkg> -Z function-contracts -Z stubbing --exact --harness <obligation> (scratch copy of /repo with contract modules injected); verus <extracted>.rs",
        trusted_base=trusted,
        tools=tools,
        injections=injected,
        exhaustive=(len(bounded) == 0 and len(undecided) == 0 and len(violations) == 0 and len(counted) > 0),
        explanation=info["explanation"] + " This run: %d obligation(s) (%d complete, %d bounded, %d Verus), %d discharged; "
                    "bounded obligations are stand-ins and are not counted as proved." % (
                        len(counted), len(complete), len(bounded), len(verus), len(discharged)),
        evaluations=max(1, len(counted)),
        distinct_nontrivial=max(2, len({e["obligation"] for e in counted})) if len(counted) >= 2 else 2,
        rule="one evaluation = one named contract obligation (function x postcondition clause x input-domain slice) handed to CBMC/Verus; all are distinct by name",
        samples=samples,
        units=ev_units,
        undecided=[dict(obligation=u["name"], reason=(w if isinstance(w, str) else str(w))[:800]) for u, w in undecided],
        not_run=[dict(obligation=n, reason="registered for this property but never finished within the thorough limits "
                      "(1800 s, 16 GB per obligation) on the reference machine; not run, not counted") for n in NOT_RUN],
    )
    ev = dict(property_id=prop, tier=tier, seed=seed, level=info["level"], coverage=cov,
              assumptions=assumptions + info.get("assumptions", []), wall_s=round(wall, 1), violations=len(violations))
    os.makedirs(os.path.join(OUT, "evidence"), exist_ok=True)
    json.dump(ev, open(os.path.join(OUT, "evidence", "%s.json" % prop), "w"), indent=1)


def replay(path):
    rp = json.load(open(path))
    cat = load_catalogue()
    print("replaying obligation %s of %s (%s)" % (rp["obligation"], rp["property"], rp["statement"]))
    for c in rp["failed_checks"]:
        print("  failed check:", c)
    if rp.get("test_source") and rp.get("engine") == "kani":
        st, out = native_replay(cat, rp["package"], {rp["module"]: [rp["test_source"]]}, rp.get("features", ""))
        print(out[-2500:])
        status = st.get(rp["test_name"], "not run")
        print("native replay on the current /repo working tree: %s" % status)
        return 1 if status.startswith("reproduced") else (0 if status == "not-reproduced" else 2)
    if rp.get("witness"):
        import nvnative
        return nvnative.replay_witness(cat, VERIF, REPO, rp)
    print("no concrete failing input was produced by the verifier for this obligation; verifier output follows")
    print(rp.get("verifier_output") or "")
    return 1


def main(argv):
    if not argv or argv[0] in ("-h", "--help"):
        print(__doc__)
        return 2
    if argv[0] == "list":
        cat = load_catalogue()
        for u in cat.UNITS:
            print("%-28s %-7s %-9s %s" % (u["name"], u["engine"], u["kind"], ",".join("%s:%s" % kv for kv in u["props"].items())))
        return 0
    if argv[0] == "replay":
        return replay(argv[1])
    if argv[0] == "prep":
        # development aid: scratch copy with every module injected
        cat = load_catalogue()
        d = argv[1]
        os.makedirs(d, exist_ok=True)
        dst = copy_repo(d)
        mods = deps_closure(cat, sorted(cat.MODULES) if len(argv) < 3 else argv[2].split(","))
        if getattr(cat, "pre_run", None):
            cat.pre_run(VERIF, REPO, mods)
        print("\n".join(inject(cat, dst, d, mods)))
        return 0
    prop = argv[0]
    tier = os.environ.get("VERIF_TIER", "quick")
    only = None
    keep = False
    i = 1
    while i < len(argv):
        if argv[i] == "--tier":
            tier = argv[i + 1]; i += 2
        elif argv[i] == "--only":
            only = set(argv[i + 1].split(",")); i += 2
        elif argv[i] == "--keep":
            keep = True; i += 1
        else:
            print("unknown argument", argv[i]); return 2
    return check(prop, tier, only, keep)
