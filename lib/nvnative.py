"""Native engine: runs a `#[cfg(test)]` module (contracts/native/*.rs) injected into the scratch copy
with plain `cargo test`.  Used only to replay, on the real code, a concrete witness that a deductive
obligation (a Verus bound) has derived; labelled bounded, never counted as proved."""
import os, re, time, subprocess


def run(cat, verif, repo, dst, scratch, units):
    res = {}
    for u in units:
        src = os.path.join(verif, "contracts", u["native_file"])
        tgt = os.path.join(scratch, "contracts", os.path.basename(u["native_file"]))
        os.makedirs(os.path.dirname(tgt), exist_ok=True)
        open(tgt, "w").write(open(src).read())
        f = os.path.join(dst, u["inject"])
        if not os.path.isfile(f):
            res[u["name"]] = dict(verdict="undecided", detail="lost anchor: %s" % u["inject"], duration_s=0)
            continue
        modname = "verif_native_" + os.path.splitext(os.path.basename(u["native_file"]))[0]
        with open(f, "a") as fh:
            fh.write('\n#[cfg(test)]\n#[path = "%s"]\nmod %s;\n' % (tgt, modname))
        t0 = time.time()
        env = dict(os.environ, CARGO_NET_OFFLINE="true", CARGO_TERM_COLOR="never")
        p = subprocess.run(["cargo", "test", "--offline", "-p", u["pkg"], "--lib", u["test"]], cwd=dst, env=env,
                           capture_output=True, text=True, timeout=1800)
        out = p.stdout + p.stderr
        wall = time.time() - t0
        m = re.search(r"test result: (\w+)\. (\d+) passed; (\d+) failed", out)
        d = dict(duration_s=wall, solver="none (native execution)", stats={}, props={"total_properties": 1}, output=out[-4000:])
        if not m:
            d.update(verdict="undecided", detail="cargo test produced no result: " + out[-400:].replace("\n", " | "))
        elif int(m.group(3)) > 0:
            pm = re.search(r"panicked at ([^\n]+)\n([^\n]*)", out)
            d.update(verdict="violated", detail=["native witness replay failed: %s %s" % (pm.group(1) if pm else "", pm.group(2)[:300] if pm else "")],
                     witness=dict(reproduced=True, test=u["test"], file=u["native_file"]))
        elif int(m.group(2)) > 0:
            d.update(verdict="discharged")
        else:
            d.update(verdict="undecided", detail="test not found")
        res[u["name"]] = d
    return res


def replay_witness(cat, verif, repo, rp):
    print("witness of obligation %s: re-run `bin/check %s --only %s` (native cargo test of %s)" % (rp["obligation"], rp["property"], rp["obligation"], rp.get("witness", {}).get("file")))
    import subprocess, sys
    p = subprocess.run([os.path.join(verif, "bin", "check"), rp["property"], "--only", rp["obligation"]], env=dict(os.environ, VERIF_OUT="/var/tmp/nucleo-verif-replay"))
    return p.returncode
