//! Naive reference implementation of the subset of the `memchr` 2.7 API used by nucleo-matcher.
pub fn memchr(n: u8, h: &[u8]) -> Option<usize> {
    let mut i = 0;
    while i < h.len() { if h[i] == n { return Some(i); } i += 1; }
    None
}
pub fn memchr2(a: u8, b: u8, h: &[u8]) -> Option<usize> {
    let mut i = 0;
    while i < h.len() { if h[i] == a || h[i] == b { return Some(i); } i += 1; }
    None
}
pub fn memrchr(n: u8, h: &[u8]) -> Option<usize> {
    let mut i = h.len();
    while i > 0 { i -= 1; if h[i] == n { return Some(i); } }
    None
}
pub fn memrchr2(a: u8, b: u8, h: &[u8]) -> Option<usize> {
    let mut i = h.len();
    while i > 0 { i -= 1; if h[i] == a || h[i] == b { return Some(i); } }
    None
}
pub struct Memchr<'h> { n: u8, h: &'h [u8], pos: usize }
impl<'h> Memchr<'h> { pub fn new(n: u8, h: &'h [u8]) -> Self { Memchr { n, h, pos: 0 } } }
impl<'h> Iterator for Memchr<'h> {
    type Item = usize;
    fn next(&mut self) -> Option<usize> {
        while self.pos < self.h.len() { let i = self.pos; self.pos += 1; if self.h[i] == self.n { return Some(i); } }
        None
    }
}
pub struct Memchr2<'h> { a: u8, b: u8, h: &'h [u8], pos: usize }
impl<'h> Memchr2<'h> { pub fn new(a: u8, b: u8, h: &'h [u8]) -> Self { Memchr2 { a, b, h, pos: 0 } } }
impl<'h> Iterator for Memchr2<'h> {
    type Item = usize;
    fn next(&mut self) -> Option<usize> {
        while self.pos < self.h.len() { let i = self.pos; self.pos += 1; if self.h[i] == self.a || self.h[i] == self.b { return Some(i); } }
        None
    }
}
pub mod memmem {
    fn at(h: &[u8], n: &[u8], i: usize) -> bool {
        let mut k = 0;
        while k < n.len() { if h[i + k] != n[k] { return false; } k += 1; }
        true
    }
    pub fn find(h: &[u8], n: &[u8]) -> Option<usize> {
        if n.len() > h.len() { return None; }
        let mut i = 0;
        while i + n.len() <= h.len() { if at(h, n, i) { return Some(i); } i += 1; }
        None
    }
    pub struct FindIter<'h, 'n> { h: &'h [u8], n: &'n [u8], pos: usize }
    pub fn find_iter<'h, 'n>(h: &'h [u8], n: &'n [u8]) -> FindIter<'h, 'n> { FindIter { h, n, pos: 0 } }
    impl<'h, 'n> Iterator for FindIter<'h, 'n> {
        type Item = usize;
        fn next(&mut self) -> Option<usize> {
            // memchr semantics: non-overlapping matches; empty needle matches at every position
            while self.pos + self.n.len() <= self.h.len() {
                let i = self.pos;
                if at(self.h, self.n, i) { self.pos = i + core::cmp::max(1, self.n.len()); return Some(i); }
                self.pos += 1;
            }
            None
        }
    }
}
