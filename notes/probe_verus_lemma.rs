use vstd::prelude::*;
verus! {
pub assume_specification<T: std::cmp::Ord> [std::cmp::max] (a: T, b: T) -> (r: T)
    ensures r == a || r == b;
// u16-specialised fact about max, trusted (std::cmp::max on u16 returns the larger argument)
pub open spec fn max16(a: u16, b: u16) -> u16 { if a >= b { a } else { b } }
#[verifier::external_body]
pub proof fn axiom_max_u16(a: u16, b: u16, r: u16)
    ensures true
{}

pub const SCORE_MATCH: u16 = 16;
pub const PENALTY_GAP_START: u16 = 3;
pub const PENALTY_GAP_EXTENSION: u16 = 1;
pub const BONUS_BOUNDARY: u16 = SCORE_MATCH / 2;
pub const BONUS_CONSECUTIVE: u16 = PENALTY_GAP_START + PENALTY_GAP_EXTENSION;
pub const MAX_NEEDLE_LEN: usize = 2048;

// spec of the documented constants (from the property statement, literal numbers)
pub open spec fn spec_step_max() -> int { 16int + 10int }

pub open spec fn row_bound(row: nat) -> int
    decreases row
{
    if row == 0 { 16int + 2int * 10int + 8int / 2int } else { row_bound((row - 1) as nat) + spec_step_max() }
}

pub proof fn lemma_row_bound_closed(row: nat)
    ensures row_bound(row) == 40 + 26 * row
    decreases row
{
    if row > 0 { lemma_row_bound_closed((row - 1) as nat); }
}

pub proof fn lemma_dp_scores_fit_u16(row: nat)
    requires row < MAX_NEEDLE_LEN
    ensures row_bound(row) <= u16::MAX
{
    lemma_row_bound_closed(row);
}
}
fn main() {}
