
use super::*;
use crate::chars::Char;

fn any_config() -> Config {
    let mut c = if kani::any() { Config::DEFAULT } else { Config::DEFAULT.match_paths() };
    c.ignore_case = kani::any();
    c.normalize = kani::any();
    c.prefer_prefix = kani::any();
    c
}
fn is_subseq_ascii(h: &[u8], n: &[u8], cfg: &Config) -> bool {
    let mut j = 0;
    let mut i = 0;
    while i < h.len() {
        if j < n.len() && crate::chars::AsciiChar(h[i]).normalize(cfg).0 == n[j] { j += 1; }
        i += 1;
    }
    j == n.len()
}

#[kani::proof]
#[kani::unwind(8)]
fn fuzzy_ascii_small() {
    const H: usize = 4;
    const N: usize = 2;
    let hay: [u8; H] = kani::any();
    let nee: [u8; N] = kani::any();
    kani::assume(hay.iter().all(|b| *b < 128));
    kani::assume(nee.iter().all(|b| *b < 128));
    let cfg = any_config();
    if cfg.ignore_case { kani::assume(nee.iter().all(|b| !(b'A'..=b'Z').contains(b))); }
    let mut m = Matcher::new(cfg.clone());
    let r = m.fuzzy_match(Utf32Str::Ascii(&hay), Utf32Str::Ascii(&nee));
    assert_eq!(r.is_some(), is_subseq_ascii(&hay, &nee, &cfg));
}

#[kani::proof]
#[kani::unwind(8)]
fn optimal_ascii_concrete_window() {
    const H: usize = 5;
    const N: usize = 2;
    let hay: [u8; H] = kani::any();
    let nee: [u8; N] = kani::any();
    kani::assume(hay.iter().all(|b| *b < 128));
    kani::assume(nee.iter().all(|b| *b < 128));
    let cfg = any_config();
    if cfg.ignore_case { kani::assume(nee.iter().all(|b| !(b'A'..=b'Z').contains(b))); }
    let mut m = Matcher { config: cfg.clone(), slab: crate::matrix::MatrixSlab::verif_with_size(256) };
    let mut idx = Vec::new();
    let pre = is_subseq_ascii(&hay, &nee, &cfg);
    kani::assume(pre);
    let r = m.fuzzy_match_optimal::<true, crate::chars::AsciiChar, crate::chars::AsciiChar>(
        crate::chars::AsciiChar::cast(&hay), crate::chars::AsciiChar::cast(&nee), 0, H, H, &mut idx);
    assert!(r.is_some());
    assert!(idx.len() == N);
    assert!(idx[0] < idx[1] && (idx[1] as usize) < H);
    std::mem::forget(m);
}

fn norm_eq_ascii(h: u8, n: u8, cfg: &Config) -> bool { crate::chars::AsciiChar(h).normalize(cfg).0 == n }

#[kani::proof]
#[kani::unwind(9)]
fn calc_score_contig() {
    // contiguous alignment: hay[start..start+N] == needle (normalized); check indices + no panic
    const H: usize = 7;
    const N: usize = 3;
    let hay: [u8; H] = kani::any();
    let nee: [u8; N] = kani::any();
    kani::assume(hay.iter().all(|b| *b < 128));
    kani::assume(nee.iter().all(|b| *b < 128));
    let cfg = any_config();
    let start: usize = kani::any();
    kani::assume(start <= H - N);
    let mut k = 0;
    while k < N { kani::assume(norm_eq_ascii(hay[start + k], nee[k], &cfg)); k += 1; }
    let mut m = Matcher { config: cfg.clone(), slab: crate::matrix::MatrixSlab::verif_with_size(8) };
    let mut idx: Vec<u32> = Vec::new();
    let s1 = m.calculate_score::<true, crate::chars::AsciiChar, crate::chars::AsciiChar>(
        crate::chars::AsciiChar::cast(&hay), crate::chars::AsciiChar::cast(&nee), start, start + N, &mut idx);
    let s2 = m.calculate_score::<false, crate::chars::AsciiChar, crate::chars::AsciiChar>(
        crate::chars::AsciiChar::cast(&hay), crate::chars::AsciiChar::cast(&nee), start, start + N, &mut Vec::new());
    assert!(s1 == s2);
    assert!(idx.len() == N);
    assert!(idx[0] as usize == start && idx[1] as usize == start + 1 && idx[2] as usize == start + 2);
    std::mem::forget(m);
}

#[kani::proof]
#[kani::unwind(9)]
#[kani::solver(kissat)]
fn calc_score_contig2() {
    const H: usize = 7;
    const N: usize = 3;
    let hay: [u8; H] = kani::any();
    let nee: [u8; N] = kani::any();
    let mut i = 0; while i < H { kani::assume(hay[i] < 128); i += 1; }
    let mut i = 0; while i < N { kani::assume(nee[i] < 128); i += 1; }
    let cfg = any_config();
    let mut m = Matcher { config: cfg.clone(), slab: crate::matrix::MatrixSlab::verif_with_size(8) };
    let mut start = 0;
    while start <= H - N {
        let mut ok = true;
        let mut k = 0;
        while k < N { ok = ok && norm_eq_ascii(hay[start + k], nee[k], &cfg); k += 1; }
        if ok {
            let mut idx: Vec<u32> = Vec::with_capacity(N);
            let s1 = m.calculate_score::<true, crate::chars::AsciiChar, crate::chars::AsciiChar>(
                crate::chars::AsciiChar::cast(&hay), crate::chars::AsciiChar::cast(&nee), start, start + N, &mut idx);
            let s2 = m.calculate_score::<false, crate::chars::AsciiChar, crate::chars::AsciiChar>(
                crate::chars::AsciiChar::cast(&hay), crate::chars::AsciiChar::cast(&nee), start, start + N, &mut Vec::new());
            assert!(s1 == s2);
            assert!(idx.len() == N);
            assert!(idx[0] as usize == start && idx[1] as usize == start + 1 && idx[2] as usize == start + 2);
        }
        start += 1;
    }
    std::mem::forget(m);
}

#[kani::proof]
#[kani::unwind(6)]
#[kani::solver(kissat)]
fn utf32_new_small() {
    let bytes: [u8; 3] = kani::any();
    let len: usize = kani::any();
    kani::assume(len <= 3);
    if let Ok(s) = std::str::from_utf8(&bytes[..len]) {
        let mut buf = Vec::new();
        let u = Utf32Str::new(s, &mut buf);
        let ascii = s.is_ascii() && !(len >= 2 && ((bytes[0] == b'\r' && bytes[1] == b'\n') || (len == 3 && bytes[1] == b'\r' && bytes[2] == b'\n')));
        assert_eq!(u.is_ascii(), ascii);
        if ascii { assert_eq!(u.len(), len); }
    }
}

#[kani::proof]
#[kani::unwind(6)]
#[kani::solver(kissat)]
fn atom_parse_small_ascii() {
    use crate::pattern::*;
    let bytes: [u8; 3] = kani::any();
    let mut i = 0; while i < 3 { kani::assume(bytes[i] < 128); i += 1; }
    let s = std::str::from_utf8(&bytes).unwrap();
    let a = Atom::parse(s, CaseMatching::Smart, Normalization::Smart);
    if bytes[0] == b'!' { assert!(a.negative); }
}

#[kani::proof]
#[kani::unwind(13)]
fn playback_probe() {
    // cheap failing harness: fold table vs class gating for one known-bad char neighbourhood
    let c: char = kani::any();
    kani::assume(c >= '\u{3c0}' && c <= '\u{3c4}');
    let mut cfg = Config::DEFAULT;
    cfg.normalize = false;
    cfg.ignore_case = kani::any();
    let (n1, _cls) = c.char_class_and_normalize(&cfg);
    let n2 = c.normalize(&cfg);
    assert_eq!(n1, n2);
}

#[kani::proof]
#[kani::unwind(7)]
#[kani::solver(kissat)]
fn atom_parse_nofeat() {
    use crate::pattern::*;
    let bytes: [u8; 4] = kani::any();
    if let Ok(s) = std::str::from_utf8(&bytes) {
        let a = Atom::parse(s, CaseMatching::Respect, Normalization::Never);
        if bytes[0] == b'!' { assert!(a.negative); }
        assert!(a.needle_text().len() <= 4);
    }
}

#[test]
fn kani_concrete_playback_playback_probe_1() {
    let concrete_vals: Vec<Vec<u8>> = vec![
        vec![194, 3, 0, 0],
        vec![1],
    ];
    kani::concrete_playback_run(concrete_vals, playback_probe);
}
