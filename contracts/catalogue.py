"""Contract catalogue: which obligation decides which property, where its contract lives,
which real functions it puts under contract and whether it is a complete proof or a bounded
stand-in.  Read by lib/nvcheck.py.  See DESIGN.md section 3."""
import os, subprocess, sys

# ---------------------------------------------------------------------------
# modules: contract files and the real source file each is injected into
# ---------------------------------------------------------------------------
MODULES = {
    "chars": dict(file="kani/chars.rs", pkg="nucleo-matcher", inject="matcher/src/chars.rs", parent="chars"),
    "spec": dict(file="kani/spec.rs", pkg="nucleo-matcher", inject="matcher/src/lib.rs", parent="", needs=["matrix"]),
    "matrix": dict(file="kani/matrix.rs", pkg="nucleo-matcher", inject="matcher/src/matrix.rs", parent="matrix"),
    "optimal_steps": dict(file="kani/optimal_steps.rs", pkg="nucleo-matcher", inject="matcher/src/fuzzy_optimal.rs", parent="fuzzy_optimal"),
    "prefilter": dict(file="kani/prefilter.rs", pkg="nucleo-matcher", inject="matcher/src/prefilter.rs", parent="prefilter", needs=["spec"]),
    "exact": dict(file="kani/exact.rs", pkg="nucleo-matcher", inject="matcher/src/exact.rs", parent="exact", needs=["spec"]),
    "greedy": dict(file="kani/greedy.rs", pkg="nucleo-matcher", inject="matcher/src/fuzzy_greedy.rs", parent="fuzzy_greedy", needs=["spec"]),
    "optimal": dict(file="kani/optimal.rs", pkg="nucleo-matcher", inject="matcher/src/fuzzy_optimal.rs", parent="fuzzy_optimal", needs=["spec", "optimal_steps", "charmodel"]),
    "entry": dict(file="kani/entry.rs", pkg="nucleo-matcher", inject="matcher/src/lib.rs", parent="", needs=["spec", "optimal"]),
    "boxcar": dict(file="kani/boxcar.rs", pkg="nucleo", inject="src/boxcar.rs", parent="boxcar"),
    "par_sort": dict(file="kani/par_sort.rs", pkg="nucleo", inject="src/par_sort.rs", parent="par_sort"),
    "charmodel": dict(file="kani/charmodel.rs", pkg="nucleo-matcher", inject="matcher/src/chars.rs", parent="chars"),
    "uni": dict(file="kani/uni.rs", pkg="nucleo-matcher", inject="matcher/src/lib.rs", parent="", needs=["spec", "optimal", "charmodel"]),
    "pattern": dict(file="kani/pattern.rs", pkg="nucleo-matcher", inject="matcher/src/pattern.rs", parent="pattern", needs=["spec", "optimal", "charmodel"]),
    "utf32": dict(file="kani/utf32.rs", pkg="nucleo-matcher", inject="matcher/src/utf32_str.rs", parent="utf32_str"),
    "multipattern": dict(file="kani/multipattern.rs", pkg="nucleo", inject="src/pattern.rs", parent="pattern"),
    "score": dict(file="kani/score.rs", pkg="nucleo-matcher", inject="matcher/src/score.rs", parent="score", needs=["spec"]),
}

# kani::requires/ensures attributes placed on the real functions in the scratch copy
ATTRS = [
    dict(module="optimal_steps", file="matcher/src/fuzzy_optimal.rs", anchor="fn next_m_cell(", attrs=[
        "kani::requires(bonus <= 10 && m_cell.consecutive_bonus <= 10 && p_score <= verif_optimal_steps::STEP_HEADROOM && m_cell.score <= verif_optimal_steps::STEP_HEADROOM)",
        "kani::ensures(|r| verif_optimal_steps::next_m_cell_post(p_score, bonus, m_cell, r))",
    ]),
    dict(module="optimal_steps", file="matcher/src/matrix.rs", anchor="pub(crate) struct ScoreCell {", attrs=[
        "derive(kani::Arbitrary)",
    ]),
    dict(module="optimal_steps", file="matcher/src/fuzzy_optimal.rs", anchor="fn p_score(", attrs=[
        "kani::ensures(|r| verif_optimal_steps::p_score_post(prev_p_score, prev_m_score, r))",
    ]),
]
HOOKS = []   # cfg(kani)-only helper items appended to real source files in the scratch copy
FEATURES = {}

TRUSTED_BASE = [
    "Verus 0.2026.09.13 / Z3 on functions extracted verbatim from /repo by lib/nvverus.py (rewrite rules R1-R5 listed there); spec integers are mathematical with range checks on exec arithmetic",
    "Kani 0.68.0 / CBMC 6.11.0 and the SAT back ends (cadical, kissat): bit-precise machine integers, bounded memory model for unsafe code",
    "Kani's pinned rustc nightly and its std (char::is_lowercase etc. as compiled by that toolchain, which is not the toolchain that builds the shipped crate)",
    "memchr crate replaced by the naive reference shim /verif/shim/memchr in the verified copy (assumed contract on a dependency; differential-tested natively)",
    "termination is not verified by Kani",
]

UNITS = []
NOSEG = "--no-default-features --features unicode-normalization,unicode-casefold"


def U(name, module, harness, props, kind, functions, desc, bound=None, expect="pass", timeout=900, cost=1, engine="kani", **kw):
    if name.startswith("c16-"):
        kw.setdefault("core", True)
    d = dict(name=name, module=module, harness=harness, props=props, kind=kind, functions=functions, desc=desc,
             bound=bound, expect=expect, timeout=timeout, cost=cost, engine=engine)
    d.update(kw)
    UNITS.append(d)


# ---------------------------------------------------------------------------
# C16  character normalisation
# ---------------------------------------------------------------------------
F_FOLD = ["chars::to_lower_case", "chars::is_upper_case", "chars::case_fold::CASE_FOLDING_SIMPLE"]
for i in range(2):
    U("c16-fold-oracle-r%d" % i, "chars", "c16_fold_oracle_r%d" % i, {"C16": "quick"}, "complete", F_FOLD,
      "for every char in slice %d/2 of the scalar-value space: to_lower_case(c) == Unicode simple case folding (oracle) and is_upper_case(c) <=> folding changes c" % i, cost=5)
U("c16-fold-idem", "chars", "c16_fold_idem", {"C16": "quick"}, "complete", F_FOLD,
  "for every char: to_lower_case is idempotent; ASCII other than A-Z untouched, A-Z -> +32", cost=5)
U("c16-norm-contract", "chars", "c16_norm_contract", {"C16": "quick"}, "complete", ["chars::normalize::normalize"],
  "for every char: normalize changes only documented blocks; NFKD = ASCII alnum + marks => that alnum; idempotent; ASCII untouched")
for i in range(2):
    U("c16-agree-anyclass-r%d" % i, "chars", "c16_agree_anyclass_r%d" % i, {"C16": "quick"}, "complete",
      ["<char as Char>::char_class_and_normalize", "<char as Char>::normalize"],
      "for every char in slice %d/2, every (ignore_case, normalize) and EVERY class char_class_non_ascii could return: char_class_and_normalize(c).0 == normalize(c) == fold(normalize(c))" % i, cost=4)
U("c16-agree-ascii", "chars", "c16_agree_ascii", {"C16": "quick"}, "complete",
  ["AsciiChar::char_class_and_normalize", "AsciiChar::normalize", "AsciiChar::char_class", "<char as Char>::char_class"],
  "for all 128 ASCII bytes x configs: AsciiChar's two normalising entry points agree, only A-Z change, and char on ASCII input == AsciiChar")
U("c16-canary", "chars", "c16_canary", {"C16": "quick"}, "complete", [], "canary: a false claim about to_lower_case must be refuted", expect="fail", no_cover=True)

# ---------------------------------------------------------------------------
# C03 / C04 / C10 / C02  step functions, bonus rules, slab layout (complete)
# ---------------------------------------------------------------------------
STEP_PROPS = {"C03": "quick", "C04": "quick", "C10": "quick"}
U("c03-next-m-cell", "optimal_steps", "c03_next_m_cell_contract", STEP_PROPS, "complete", ["fuzzy_optimal::next_m_cell"],
  "function contract on the real next_m_cell: for all (p, bonus<=10, cell with consecutive_bonus<=10, scores<=65509) the result is the README M-step with literal numbers, score grows by <=26, no overflow")
U("c03-p-score", "optimal_steps", "c03_p_score_contract", STEP_PROPS, "complete", ["fuzzy_optimal::p_score"],
  "function contract on the real p_score: == (max(m-3, p-1) floored at 0, m-3 > p-1) for all u16 pairs")
U("c03-unmatched-sentinel", "optimal_steps", "c03_unmatched_sentinel", {"C03": "quick", "C04": "quick"}, "complete", ["fuzzy_optimal::next_m_cell", "fuzzy_optimal::UNMATCHED"],
  "a computed cell is never equal to the UNMATCHED sentinel")
U("c03-steps-canary", "optimal_steps", "c03_steps_canary", {"C04": "quick"}, "complete", [], "canary", expect="fail", no_cover=True)
U("c03-bonus-rules", "score", "c03_bonus_rules", {"C03": "quick", "C04": "quick"}, "complete", ["Config::bonus_for", "Config::DEFAULT", "Config::match_paths", "Config::set_match_paths", "score::* constants"],
  "all 49 class pairs x {DEFAULT, match_paths(), set_match_paths()}: bonus_for == literal bonus rules; constants are 16/3/1/8/5/8/4/2")
U("c03-class-ascii", "score", "c03_class_ascii", {"C03": "quick", "C05": "quick"}, "complete", ["AsciiChar::char_class"],
  "all 256 bytes x 3 delimiter sets: AsciiChar::char_class == literal class table")
U("c02-matrix-cell", "matrix", "c02_matrix_cell_roundtrip", {"C02": "quick"}, "complete", ["MatrixCell::set", "MatrixCell::get"],
  "set(p,m) then get(false)==p and get(true)==m for all prior cell contents")
U("c10-layout-ascii", "matrix", "c10_layout_views_ascii", {"C10": "quick"}, "complete", ["MatrixLayout::<AsciiChar>::new", "MatrixLayout::fieds_from_ptr"],
  "for ALL (h,n) passing alloc's guards: the five views lie inside the slab, are disjoint and aligned, matrix view has room for n rows", cost=8)
U("c10-layout-char", "matrix", "c10_layout_views_char", {"C10": "quick"}, "complete", ["MatrixLayout::<char>::new", "MatrixLayout::fieds_from_ptr"],
  "same for the code-point representation", cost=8)
U("c10-alloc-guards", "matrix", "c10_alloc_guards", {"C10": "quick"}, "complete", ["MatrixSlab::alloc"],
  "for every haystack length <= 70000 and needle length: alloc refuses when a guard fails; on success the views have the lengths the DP relies on and the matrix view lies inside the slab", cost=8)
U("c10-alloc-guards-char", "matrix", "c10_alloc_guards_char", {"C10": "quick"}, "complete", ["MatrixSlab::alloc::<char>"],
  "code-point haystacks: for every haystack length <= 40000 (the slab holds at most 2048 chars; larger ones must be refused) and needle length: alloc refuses when a guard fails; on success the views have the lengths the DP relies on and the matrix view lies inside the slab", cost=8)
U("c10-layout-canary", "matrix", "c10_layout_canary", {"C10": "quick"}, "complete", [], "canary", expect="fail", no_cover=True)

# calculate_score, bounded: shapes instantiated here, contract fns in kani/score.rs
SCORE_FNS = ["Matcher::calculate_score"]


def UC(name, module, call, props, kind, functions, desc, unwind=None, **kw):
    if call is None:
        U(name, module, name.replace("-", "_"), props, kind, functions, desc, **kw)
    else:
        U(name, module, name.replace("-", "_"), props, kind, functions, desc, call=call, unwind=unwind, **kw)


CFGNAME = {0: "DEFAULT", 1: "match_paths()"}
for n, lens in ((1, (1,)), (2, (2, 3, 4, 5)), (3, (3, 4, 5))):
    for L in lens:
        for st in (0, 1):
            for k in (0, 1):
                h = L + st
                shape = "%d,%d,%d,%d" % (h, n, st, k)
                tag = "h%d-n%d-s%d-k%d" % (h, n, st, k)
                bound = "ASCII haystack window of %d chars%s, needle %d chars, %s, all bytes/ignore_case/normalize" % (L, " preceded by one char" if st else " at position 0", n, CFGNAME[k])
                tier = "quick" if ((L <= 4 and (k == 0 or st == 0)) or (n == 3 and k == 0 and L == 5)) else "thorough"
                UC("c03-cs-ws-" + tag, "score", "cs_witness_and_score::<%s>()" % shape, {"C03": tier, "C02": tier, "C10": tier}, "bounded", SCORE_FNS,
                   "calculate_score: one index per needle char appended (valid witness inside the window), prior content untouched, score == fzf scheme on those indices",
                   unwind=max(h + 3, 7), bound=bound, cost=3)
                if (n, L) in ((2, 4), (3, 5)):
                    UC("c03-cs-agree-" + tag, "score", "cs_variants_agree::<%s>()" % shape, {"C03": "quick"}, "bounded", SCORE_FNS,
                       "calculate_score: score-only and indices variants return the same value", unwind=max(h + 3, 7), bound=bound, cost=2)
                    UC("c04-cs-prefix-" + tag, "score", "cs_prefer_prefix::<%s>()" % shape, {"C04": "quick"}, "bounded", SCORE_FNS,
                       "calculate_score: prefer_prefix raises the score by 0..=8 (exactly 8 at position 0)", unwind=max(h + 3, 7), bound=bound, cost=2)
U("c10-prefix-term-no-overflow", "score", "c10_prefix_term_no_overflow", {"C10": "quick", "C04": "quick"}, "complete", SCORE_FNS,
  "for every match start position < 24000 (beyond the u16/3 threshold 21846; all base configs, prefer_prefix on): calculate_score's prefix term neither overflows nor leaves 16..=44 for a one-character match")
U("c03-long-needle-no-wrap", None, None, {"C03": "quick", "C10": "quick"}, "bounded", ["Matcher::calculate_score", "Matcher::fuzzy_match", "Matcher::exact_match", "Matcher::substring_match", "Matcher::prefix_match", "Matcher::fuzzy_match_greedy"],
  "native replay of the witness family derived from the Verus row bound: haystack == needle == 'a' x n for n in {2520, 2521, 2522, 2600, 5000, 70000} through five entry points: no overflow panic, score == 36 + 26 (n-1) capped at u16::MAX (never wrapped)",
  bound="six concrete lengths x five entry points, DEFAULT config; plain cargo test (debug build) on the scratch copy", engine="native", native_file="native/long_needle.rs", inject="matcher/src/lib.rs", pkg="nucleo-matcher", test="verif_native_long_needle_no_wrap", no_cover=True)
UC("c03-cs-canary", "score", "cs_canary()", {"C03": "quick", "C02": "quick"}, "bounded", [], "canary", unwind=8, expect="fail", no_cover=True)

# prefilter (ASCII), greedy, optimal, exact: bounded
PRE_FNS = ["Matcher::prefilter_ascii", "prefilter::find_ascii_ignore_case", "prefilter::find_ascii_ignore_case_rev"]
UC("c16-prefilter-byte-relation", "prefilter", None, {"C16": "quick", "C01": "quick"}, "complete", PRE_FNS[1:],
   "for all (needle byte, haystack byte, ignore_case): the prefilter's byte search finds h for c exactly when normalize(h) == c")
UNITS[-1]["harness"] = "c16_prefilter_byte_relation"
for (h, n) in ((3, 1), (4, 2), (5, 2), (5, 3), (6, 3)):
    for k in (0, 1):
        tier = "quick" if (h <= 5 and not (h == 5 and n == 3 and k == 1)) else "thorough"
        UC("c01-prefilter-ascii-h%d-n%d-k%d" % (h, n, k), "prefilter", "prefilter_ascii_contract::<%d,%d,%d>()" % (h, n, k), {"C01": tier, "C10": tier}, "bounded", PRE_FNS,
           "prefilter_ascii: None <=> needle is not a normalised subsequence; start = first occurrence of needle[0]; (start, greedy_end) is the forward-greedy window; end-1 = last occurrence of the last needle char",
           unwind=max(h + 3, 7), bound="ASCII haystack %d, needle %d, %s, all bytes/ignore_case/normalize/only_greedy" % (h, n, CFGNAME[k]), cost=3)
UC("c01-prefilter-canary", "prefilter", "prefilter_canary()", {"C01": "quick"}, "bounded", [], "canary", unwind=8, expect="fail", no_cover=True)

GREEDY_FNS = ["Matcher::fuzzy_match_greedy_", "Matcher::calculate_score"]
for n, lens in ((2, (2, 3, 4)), (3, (4, 5))):
    for L in lens:
        for st in (0, 1):
            for k in (0, 1):
                h = L + st
                shape = "%d,%d,%d,%d" % (h, n, st, k)
                tag = "h%d-n%d-s%d-k%d" % (h, n, st, k)
                bound = "ASCII greedy window of %d chars%s, needle %d, %s" % (L, " preceded by one char" if st else "", n, CFGNAME[k])
                tier = "quick" if (L <= 4 or k == 0) else "thorough"
                UC("c02-greedy-ws-" + tag, "greedy", "greedy_ascii_witness_and_score::<%s>()" % shape, {"C01": tier, "C02": tier, "C03": tier, "C10": tier}, "bounded", GREEDY_FNS,
                   "fuzzy_match_greedy_ (ASCII): Some under the prefilter's postcondition; W; score == fzf scheme on the indices", unwind=max(h + 3, 7), bound=bound, cost=4)
                if (n, L) in ((2, 4), (3, 5)) and k == 0:
                    UC("c03-greedy-agree-" + tag, "greedy", "greedy_ascii_agree::<%s>()" % shape, {"C03": "quick"}, "bounded", GREEDY_FNS,
                       "fuzzy_match_greedy_: score-only and indices variants agree", unwind=max(h + 3, 7), bound=bound, cost=3)
UC("c02-greedy-canary", "greedy", "greedy_canary()", {"C02": "quick", "C01": "quick"}, "bounded", [], "canary", unwind=8, expect="fail", no_cover=True)

OPT_FNS = ["Matcher::fuzzy_match_optimal", "MatcherDataView::setup", "MatcherDataView::score_row", "MatcherDataView::populate_matrix", "MatcherDataView::reconstruct_optimal_path", "MatrixSlab::alloc"]
for n, lens in ((2, (3, 4, 5)), (3, (4, 5))):
    for L in lens:
        for st in (0, 1):
            for k in (0, 1):
                h = L + st
                shape = "%d,%d,%d,%d" % (h, n, st, k)
                tag = "h%d-n%d-s%d-k%d" % (h, n, st, k)
                bound = "ASCII prefilter window of %d chars%s, needle %d, %s, 256-byte slab" % (L, " preceded by one char" if st else "", n, CFGNAME[k])
                small = (L <= 4 and n == 2) or (L == 4 and n == 3 and st == 0) or (n == 2 and L == 5 and st == 1 and k == 1)
                tier = "quick" if small else "thorough"
                UC("c02-opt-ws-" + tag, "optimal", "opt_witness_and_score::<%s>()" % shape, {"C01": tier, "C02": tier, "C03": tier, "C10": tier}, "bounded", OPT_FNS,
                   "fuzzy_match_optimal (ASCII): Some under the prefilter's postcondition; W; score == fzf scheme on the indices", unwind=max(h + 3, 7), bound=bound, cost=8, timeout=1500, core=(tag in ("h3-n2-s0-k0", "h4-n2-s1-k1")))
                UC("c04-opt-best-" + tag, "optimal", "opt_at_most_best::<%s>()" % shape, {"C04": tier}, "bounded", OPT_FNS,
                   "fuzzy_match_optimal: score <= maximum of the fzf scheme over all alignments (brute force)", unwind=max(h + 3, 7), bound=bound, cost=8, timeout=1500)
                UC("c04-opt-rec-" + tag, "optimal", "opt_at_least_recurrence::<%s>()" % shape, {"C04": tier}, "bounded", OPT_FNS,
                   "fuzzy_match_optimal: score >= naive full-matrix two-matrix recurrence", unwind=max(h + 3, 7), bound=bound, cost=8, timeout=1500, core=(tag == "h6-n2-s1-k1"))
                if k == 0:
                    UC("c03-opt-agree-" + tag, "optimal", "opt_agree::<%s>()" % shape, {"C03": tier, "C10": tier}, "bounded", OPT_FNS,
                       "fuzzy_match_optimal: score-only and indices variants agree (second call on the same matcher)", unwind=max(h + 3, 7), bound=bound, cost=8, timeout=1500)
                    UC("c04-opt-prefix-" + tag, "optimal", "opt_prefer_prefix::<%s>()" % shape, {"C04": tier}, "bounded", OPT_FNS,
                       "fuzzy_match_optimal: prefer_prefix raises the score by 0..=8", unwind=max(h + 3, 7), bound=bound, cost=8, timeout=1500)
                    win = h - st
                    need = ((2 * win + 2 * n + 7) // 8) * 8 + 8 * (win + 1 - n) + (win + 1 - n) * n
                    UC("c10-opt-history-" + tag, "optimal", "opt_history_independent::<%s,%d>()" % (shape, ((need + 7) // 8) * 8), {"C10": tier}, "bounded", OPT_FNS,
                       "fuzzy_match_optimal: same score and indices from a fresh matcher and from one whose scratch memory holds arbitrary bytes", unwind=max(h + 3, 7), bound=bound, cost=8, timeout=1500, core=(tag == "h3-n2-s0-k0"))
# modular variants: calls to next_m_cell are replaced by its function contract (kani::stub_verified).
# This (a) asserts next_m_cell's precondition (bonus <= 10, run bonus <= 10, scores within the
# headroom) at its real call sites in score_row and (b) shows the DP's witness/score contract
# follows from the step contract alone
for (h, n, st, k) in ((3, 2, 0, 0), (4, 2, 1, 1), (4, 3, 0, 0)):
    tag = "h%d-n%d-s%d-k%d" % (h, n, st, k)
    UC("c03-opt-modular-" + tag, "optimal", "opt_witness_and_score::<%d,%d,%d,%d>()" % (h, n, st, k), {"C03": "quick", "C04": "quick", "C10": "quick"}, "bounded", OPT_FNS + ["fuzzy_optimal::next_m_cell (by contract)"],
       "fuzzy_match_optimal with next_m_cell replaced by its verified contract: the contract's precondition holds at every call site in score_row, and W + score == fzf scheme follow from the contract",
       unwind=max(h + 3, 7), bound="ASCII window %d, needle %d, %s, 256-byte slab" % (h - st, n, CFGNAME[k]), cost=8, timeout=1500,
       stub_verified=["crate::fuzzy_optimal::next_m_cell"], core=(tag == "h3-n2-s0-k0"))
UC("c04-opt-canary", "optimal", "opt_canary()", {"C04": "quick", "C01": "quick", "C10": "quick"}, "bounded", [], "canary", unwind=8, expect="fail", no_cover=True)

EXACT_FNS = ["Matcher::substring_match_1_ascii", "Matcher::substring_match_ascii", "Matcher::substring_match_ascii_with_prefilter", "Matcher::calculate_score"]
for h in (3, 5):
    for k in (0, 1):
        UC("c05-sub1-ascii-h%d-k%d" % (h, k), "exact", "sub1_ascii::<%d,%d>()" % (h, k), {"C05": "quick", "C04": "quick", "C02": "quick", "C03": "quick"}, "bounded", EXACT_FNS[:1],
           "substring_match_1_ascii: Some <=> char occurs; reports the leftmost occurrence with the highest bonus (true optimum); score 16+2*bonus; one index appended; None appends nothing",
           unwind=max(h + 3, 7), bound="ASCII haystack %d, needle 1, %s" % (h, CFGNAME[k]), cost=3)
    UC("c05-sub1-ascii-agree-h%d" % h, "exact", "sub1_ascii_agree::<%d,0>()" % h, {"C03": "quick"}, "bounded", EXACT_FNS[:1], "substring_match_1_ascii: variants agree", unwind=max(h + 3, 7), bound="ASCII haystack %d" % h)
ARMNAME = {0: "ignore_case off", 1: "ignore_case on, needle starts with a letter", 2: "ignore_case on, first letter at index 1", 3: "ignore_case on, no letter in the first two needle chars"}
UC("c04-sub1-ascii-optimum-h5-k0", "exact", "sub1_ascii::<5,0>()", {"C04": "quick"}, "bounded", EXACT_FNS[:1],
   "one-character needle: the reported occurrence is the true optimum (leftmost occurrence with the highest bonus), score 16 + 2*bonus", unwind=8, bound="ASCII haystack 5, needle 1, DEFAULT", cost=3, core=True)
UC("c04-sub1-ascii-optimum-h5-k1", "exact", "sub1_ascii::<5,1>()", {"C04": "quick"}, "bounded", EXACT_FNS[:1],
   "same under match_paths() (delimiter bonus above whitespace bonus)", unwind=8, bound="ASCII haystack 5, needle 1, match_paths()", cost=3, core=True)
for (h, n) in ((3, 2), (4, 2), (4, 3), (5, 3), (6, 3), (6, 4)):
    for k in (0, 1):
        for arm in (0, 1, 2, 3):
            if k == 1 and arm in (1, 2) and (h, n) != (4, 3):
                continue  # the bonus configuration only matters for which occurrence wins; covered by arms 0 and 3
            bound = "ASCII haystack %d, needle %d, %s, %s" % (h, n, CFGNAME[k], ARMNAME[arm])
            # each of these takes 3-9 min and 4-8 GB: the quick tier keeps the smallest shape of every
            # code path plus the (4,3) decisions (smallest shape with a letter-free needle prefix of 2)
            dec_tier = "quick" if ((h, n) == (3, 2) and k == 0) or ((h, n) == (4, 3) and k == 0 and arm == 3) else "thorough"
            wit_tier = "quick" if (h, n) == (3, 2) and k == 0 and arm in (0, 2) else "thorough"
            tag = "h%d-n%d-k%d-a%d" % (h, n, k, arm)
            UC("c05-sub-ascii-dec-" + tag, "exact", "sub_ascii_decision::<%d,%d,%d,%d>()" % (h, n, k, arm), {"C05": dec_tier, "C10": dec_tier}, "bounded", EXACT_FNS[1:3],
               "substring_match_ascii: Some <=> the needle occurs contiguously in the normalised haystack", unwind=max(h + 3, 7), bound=bound, cost=6)
            UC("c05-sub-ascii-wit-" + tag, "exact", "sub_ascii_witness::<%d,%d,%d,%d>()" % (h, n, k, arm), {"C05": wit_tier, "C02": wit_tier, "C03": wit_tier}, "bounded", EXACT_FNS[1:],
               "substring_match_ascii: leftmost occurrence with the highest first-char bonus; contiguous valid witness; score == scheme; None appends nothing", unwind=max(h + 3, 7), bound=bound, cost=7)
    if (h, n) in ((4, 2), (4, 3)):
        for arm in (0, 1):
            UC("c03-sub-ascii-agree-h%d-n%d-a%d" % (h, n, arm), "exact", "sub_ascii_agree::<%d,%d,0,%d>()" % (h, n, arm), {"C03": "thorough"}, "bounded", EXACT_FNS[1:], "substring_match_ascii: variants agree", unwind=max(h + 3, 7), bound="ASCII haystack %d, needle %d, %s" % (h, n, ARMNAME[arm]))
CN = {0: '"--a" (ignore_case)', 1: '"a-a" (case sensitive)', 2: '"-a" (ignore_case)', 3: '"ab" (ignore_case)', 4: '"--" (ignore_case)'}
for (h, nid, k) in ((4, 0, 0), (5, 0, 0), (6, 1, 0), (4, 2, 0), (4, 3, 0), (4, 3, 1), (4, 4, 0), (5, 0, 1)):
    UC("c05-sub-ascii-needle%d-h%d-k%d" % (nid, h, k), "exact", "sub_ascii_concrete_needle::<%d,%d,%d>()" % (h, nid, k), {"C05": "quick"}, "bounded", EXACT_FNS[1:],
       "substring_match_ascii with the concrete needle %s on every ASCII haystack of %d bytes: decision, leftmost best occurrence, contiguous witness, score, None appends nothing" % (CN[nid], h),
       unwind=max(h + 3, 7), bound="ASCII haystack %d (all bytes), concrete needle %s, %s" % (h, CN[nid], CFGNAME[k]), cost=3, core=(nid == 0 and h == 4))
for (h, nid) in ((3, 2),):
    UC("c02-sub-ascii-needle%d-h%d" % (nid, h), "exact", "sub_ascii_concrete_needle::<%d,%d,0>()" % (h, nid), {"C02": "quick"}, "bounded", EXACT_FNS[1:],
       "substring_match_ascii with the concrete needle %s on every ASCII haystack of %d bytes: decision, leftmost best occurrence, contiguous valid witness, score, None appends nothing" % (CN[nid], h),
       unwind=7, bound="ASCII haystack %d (all bytes), concrete needle %s, DEFAULT" % (h, CN[nid]), cost=3, core=True)
for (h, n, pl, k) in ((4, 2, 1, 0), (4, 2, 1, 1), (5, 2, 1, 0), (5, 3, 2, 0), (5, 3, 1, 0)):
    UC("c05-sub-prefilter-callee-h%d-n%d-p%d-k%d" % (h, n, pl, k), "exact", "sub_ascii_with_prefilter::<%d,%d,%d,%d>()" % (h, n, pl, k), {"C05": "quick", "C04": "quick"}, "bounded", ["exact::Matcher::substring_match_ascii_with_prefilter"],
       "substring_match_ascii_with_prefilter against its contract: given the candidate positions its three call sites supply (every position where the first %d needle character(s) occur in the folded haystack, in increasing order), score 0 <=> no occurrence, otherwise the leftmost occurrence whose first character earns the highest bonus, score 16 + 2*bonus" % pl,
       unwind=max(h + 3, 7), bound="ASCII haystack %d and needle %d (all bytes, needle folded), ignore_case, symbolic normalize, %s; candidate iterator built from the precondition instead of memchr/memmem" % (h, n, CFGNAME[k]), cost=2, core=((h, n, pl, k) == (4, 2, 1, 0)))
UC("c05-exact-canary", "exact", "exact_canary()", {"C05": "quick"}, "bounded", [], "canary", unwind=8, expect="fail", no_cover=True)

# public entry points, ASCII x ASCII
OPT_STUB = [("crate::Matcher::fuzzy_match_optimal", "crate::fuzzy_optimal::verif_optimal::opt_contract")]
ALGS = {0: ("fuzzy", ["Matcher::fuzzy_match", "Matcher::fuzzy_indices", "Matcher::fuzzy_matcher_impl"]),
        1: ("greedy", ["Matcher::fuzzy_match_greedy", "Matcher::fuzzy_indices_greedy", "Matcher::fuzzy_match_greedy_impl"]),
        2: ("substring", ["Matcher::substring_match", "Matcher::substring_indices", "Matcher::substring_match_impl"]),
        3: ("prefix", ["Matcher::prefix_match", "Matcher::prefix_indices", "Matcher::exact_match_impl", "Utf32Str::leading_white_space"]),
        4: ("postfix", ["Matcher::postfix_match", "Matcher::postfix_indices", "Matcher::exact_match_impl", "Utf32Str::trailing_white_space"]),
        5: ("exact", ["Matcher::exact_match", "Matcher::exact_indices", "Matcher::exact_match_impl"])}
for alg, (aname, fns) in ALGS.items():
    decp = {"C01": "quick"} if alg <= 1 else {"C05": "quick"}
    for (h, n) in ((3, 0), (2, 3), (3, 3), (4, 1), (4, 2), (5, 3), (5, 2)):
        for k in (0, 1):
            if k == 1 and (h, n) != (4, 2):
                continue
            heavy = (alg == 0 and n >= 2 and n < h)
            tier = "quick" if (h, n) in ((3, 0), (2, 3), (3, 3), (4, 2)) else "thorough"
            tag = "%s-h%d-n%d-k%d" % (aname, h, n, k)
            bound = "entry point %s, Ascii x Ascii, haystack %d, needle %d, %s" % (aname, h, n, CFGNAME[k])
            dp = dict((p, tier) for p in decp)
            dp["C10"] = tier
            st = OPT_STUB if heavy else []
            if heavy:
                bound += "; fuzzy_match_optimal replaced by its contract (checked against its body by c02-opt-*/c04-opt-*)"
            UC("c01-entry-dec-" + tag, "entry", "entry_decision::<%d,%d,%d,%d>()" % (alg, h, n, k), dp, "bounded", fns,
               "%s_match succeeds exactly when the documented relation holds (empty needle => Some(0))" % aname, unwind=max(h + 3, 7), bound=bound, cost=5 if heavy else 3, timeout=1500, stubs=st)
            wp = {"C02": tier, "C03": tier}
            wp.update(dp)
            UC("c02-entry-wit-" + tag, "entry", "entry_witness::<%d,%d,%d,%d>()" % (alg, h, n, k), wp, "bounded", fns,
               "%s_indices: same decision; W; contiguous+anchored for non-fuzzy kinds; score == fzf scheme on the indices; None appends nothing" % aname, unwind=max(h + 3, 7), bound=bound, cost=6 if heavy else 4, timeout=1500, stubs=st)
            if (h, n) in ((4, 2), (3, 3)) and k == 0:
                UC("c03-entry-agree-" + tag, "entry", "entry_agree::<%d,%d,%d,%d>()" % (alg, h, n, k), {"C03": tier, "C10": tier}, "bounded", fns,
                   "%s: score-only and indices entry points agree, also on a reused matcher" % aname, unwind=max(h + 3, 7), bound=bound, cost=6 if heavy else 3, timeout=1500, stubs=st)
REFUSE = [("crate::matrix::MatrixSlab::alloc", "crate::matrix::verif_matrix::alloc_refuses")]
for (h, n) in ((4, 2), (5, 3)):
    tier = "quick" if h == 4 else "thorough"
    UC("c01-entry-fallback-dec-h%d-n%d" % (h, n), "entry", "entry_decision::<0,%d,%d,0>()" % (h, n), {"C01": tier, "C10": tier}, "bounded", ALGS[0][1] + ["Matcher::fuzzy_match_optimal (fallback arm)", "Matcher::fuzzy_match_greedy_"],
       "fuzzy_match with the slab refusing (greedy fallback forced): still decides the normalised-subsequence relation", unwind=max(h + 3, 7),
       bound="Ascii x Ascii, haystack %d, needle %d, MatrixSlab::alloc stubbed to return None" % (h, n), cost=5, stubs=REFUSE)
    UC("c02-entry-fallback-wit-h%d-n%d" % (h, n), "entry", "entry_witness::<0,%d,%d,0>()" % (h, n), {"C02": tier, "C01": tier, "C03": tier}, "bounded", ALGS[0][1] + ["Matcher::fuzzy_match_optimal (fallback arm)", "Matcher::fuzzy_match_greedy_"],
       "fuzzy_indices with the slab refusing: same decision, W, score == scheme", unwind=max(h + 3, 7),
       bound="Ascii x Ascii, haystack %d, needle %d, MatrixSlab::alloc stubbed to return None" % (h, n), cost=6, stubs=REFUSE)
# C10-primary copies of three cheap entry obligations: their frame clause (the call leaves the
# configuration untouched) and CBMC's panic/overflow/bounds checks are C10's subject
for alg, (h, n) in ((5, (3, 3)), (3, (4, 2)), (0, (3, 3))):
    UC("c10-entry-frame-%s-h%d-n%d" % (ALGS[alg][0], h, n), "entry", "entry_decision::<%d,%d,%d,0>()" % (alg, h, n), {"C10": "quick"}, "bounded", ALGS[alg][1],
       "%s_match: returns without panic/overflow/out-of-bounds access, leaves the matcher's configuration untouched, decides the documented relation" % ALGS[alg][0],
       unwind=7, bound="entry point %s, Ascii x Ascii, haystack %d, needle %d, DEFAULT" % (ALGS[alg][0], h, n), cost=3, core=True)
UC("c05-entry-canary", "entry", "entry_canary()", {"C05": "quick", "C01": "quick"}, "bounded", [], "canary", unwind=8, expect="fail", no_cover=True)

# ---------------------------------------------------------------------------
# C08 / C11  boxcar vector (sequential content only)
# ---------------------------------------------------------------------------
U("c08-location-of", "boxcar", "c08_location_of", {"C08": "quick"}, "complete", ["boxcar::Location::of", "boxcar::Location::bucket_len", "boxcar::Location::alloc_next_bucket_entry"],
  "for all 2^32-32 indices: bucket < 27, entry < bucket_len, (bucket_len - 32) + entry == index (bijective, order preserving, gap free)")
U("c08-location-order", "boxcar", "c08_location_order", {"C08": "quick"}, "complete", ["boxcar::Location::of"],
  "for all i < j: slot(i) < slot(j) lexicographically")
for t in ("u8", "u64", "24"):
    U("c08-entry-layout-" + t, "boxcar", "c08_entry_layout_" + t, {"C08": "quick", "C11": "quick"}, "bounded", ["boxcar::Entry::layout", "boxcar::Bucket::layout", "boxcar::Bucket::get"], bound="columns <= 64, buckets 0..3 (32/64/128 entries), every entry index; loop-free", desc=
      "for all columns <= 64, buckets 0..3, entry idx: columns lie inside the entry, entry lies inside the bucket allocation, Bucket::get addresses it (payload type %s)" % t)
VEC_FNS = ["boxcar::Vec::with_capacity", "boxcar::Vec::push", "boxcar::Vec::extend", "boxcar::Vec::get", "boxcar::Vec::count", "boxcar::Vec::get_or_alloc", "boxcar::Bucket::alloc", "boxcar::Entry::read"]
for cap in (0, 1, 33):
    for cols in (1, 2):
        if cap == 33 and cols == 2:
            continue
        UC("c08-vec-push-get-cap%d-cols%d" % (cap, cols), "boxcar", "vec_push_get::<%d,%d>()" % (cap, cols), {"C08": "quick"}, "bounded", VEC_FNS,
           "push;push;get(i): gap-free indices, read-your-writes (value and columns), nothing for unassigned indices, count == completed pushes",
           unwind=70, bound="2 pushes, initial capacity %d, %d column(s), lookups at 0..3,31,32,95,96; single thread" % (cap, cols), cost=6, timeout=1500)
for (cap, cols, pre, actual) in ((0, 1, 0, 1), (0, 1, 0, 3), (1, 1, 30, 0), (1, 1, 30, 2), (1, 1, 30, 3), (0, 2, 94, 3), (0, 1, 100, 1)):
    UC("c08-vec-extend-get-cap%d-cols%d-pre%d-act%d" % (cap, cols, pre, actual), "boxcar", "vec_extend_get::<%d,%d,%d,%d>()" % (cap, cols, pre, actual), {"C08": "quick"}, "bounded", VEC_FNS,
       "[reserve PRE unfilled]; extend(reports 3, yields %d); push; get: indices reserved as reported, filled as yielded, unfilled read as nothing, next push continues gap-free (batch crosses a bucket boundary for PRE=30/94)" % actual,
       unwind=70 if pre < 90 else 135, bound="batch of 3 (yielding %d) starting at index %d, capacity %d, %d column(s); single thread" % (actual, pre, cap, cols), cost=8, timeout=1500)
for (pre, act) in ((0, 2), (30, 3)):
    UC("c08-vec-snapshot-iter-pre%d-act%d" % (pre, act), "boxcar", "vec_snapshot_iter_agrees::<%d,%d>()" % (pre, act), {"C08": "quick"}, "bounded", ["boxcar::Vec::snapshot", "boxcar::Iter::next", "boxcar::Vec::get"],
       "[reserve PRE unfilled]; extend(reports 3, yields %d); push; snapshot(PRE): the iterator yields every index below count once, in order (across the bucket boundary for PRE=30), with an item exactly where get returns one" % act,
       unwind=70, bound="4 indices starting at %d; single thread" % pre, cost=7, timeout=1500)
for rep in (1, 2):
    UC("c08-vec-extend-overreport-%d" % rep, "boxcar", "vec_extend_overreport_panics::<%d>()" % rep, {"C08": "quick"}, "bounded", VEC_FNS[:3],
       "extend with an ExactSizeIterator that reports %d item(s) but yields %d panics (the lie is caught) instead of writing to an index it never reserved" % (rep, rep + 1),
       unwind=70, bound="batch reporting %d, yielding %d; single thread" % (rep, rep + 1), cost=6, timeout=1500, should_panic=True, no_cover=True)
UC("c11-vec-extend-overreport-1", "boxcar", "vec_extend_overreport_panics::<1>()", {"C11": "quick"}, "bounded", VEC_FNS[:3],
   "extend with an iterator yielding one item more than reported panics instead of storing the surplus item in a slot the next push will overwrite (which would leak it)",
   unwind=70, bound="batch reporting 1, yielding 2; single thread", cost=6, timeout=1500, should_panic=True, no_cover=True)
for (cap, pre, actual) in ((0, 0, 0), (0, 0, 2), (1, 30, 1), (1, 30, 2), (0, 100, 1), (0, 100, 2)):
    UC("c11-vec-drop-cap%d-pre%d-act%d" % (cap, pre, actual), "boxcar", "vec_drop_exactly_once::<%d,%d,%d>()" % (cap, pre, actual), {"C11": "quick"}, "bounded", ["boxcar::Vec::drop", "boxcar::Bucket::dealloc"] + VEC_FNS[:3],
       "[reserve PRE unfilled]; extend(reports 2, yields %d); push; drop(vec): each yielded/pushed item dropped exactly once, nothing dropped early" % actual,
       unwind=130, bound="history of <= 3 operations starting at index %d, capacity %d; single thread, no panics" % (pre, cap), cost=8, timeout=1500)
UC("c11-vec-drop-plain-payload-no-leak", "boxcar", "vec_drop_plain_payload_no_leak()", {"C11": "quick"}, "bounded", ["boxcar::Vec::drop", "boxcar::Bucket::dealloc", "boxcar::Vec::push"],
   "payload type without drop glue (u32): after push; push; drop(vec) no heap block is leaked - the matcher columns the fill callback allocated are destroyed with the vector (CBMC memory-leak check)",
   unwind=70, bound="two pushes, one column holding a heap allocation, then drop; single thread", cost=5, timeout=1500, cbmc_args="--memory-leak-check", core=True)
UC("c08-boxcar-canary", "boxcar", "boxcar_canary()", {"C08": "quick", "C11": "quick"}, "bounded", [], "canary", unwind=40, expect="fail", no_cover=True)

# ---------------------------------------------------------------------------
# C18  par_sort building blocks (sequential, bounded)
# ---------------------------------------------------------------------------
SORT = [("insertion_sort", "insertion-sort", (6,), "sorted permutation"),
        ("heapsort", "heapsort", (6,), "sorted permutation"),
        ("shift_head", "shift-head", (6,), "tail sorted => sorted permutation"),
        ("shift_tail", "shift-tail", (6,), "head sorted => sorted permutation"),
        ("partial_insertion_sort", "partial-insertion-sort", (6,), "true => sorted; always a permutation"),
        ("partition", "partition", (6,), "pivot at mid, left < pivot <= right, permutation"),
        ("partition_equal", "partition-equal", (6,), "left == pivot < right, permutation (pre: pivot is a minimum)"),
        ("choose_pivot", "choose-pivot", (8,), "index in bounds, permutation"),
        ("break_patterns", "break-patterns", (8,), "permutation"),
        ("par_quicksort", "par-quicksort", (5,), "sorted permutation and 'not cancelled' if the flag is never raised; flag raised before => cancelled, still a permutation")]
for fn, tag, lens, what in SORT:
    for L in lens:
        UC("c18-%s-%d" % (tag, L), "par_sort", "k18_%s::<%d>()" % (fn, L), {"C18": "quick"}, "bounded", ["par_sort::" + fn],
           "%s: %s" % (fn, what), unwind=L + 3, bound="every array of %d bytes, strict weak order = low 2 bits (ties with distinguishable payloads)" % L, cost=6, timeout=1500,
           stubs=[("rayon::join", "crate::par_sort::verif_par_sort::seq_join")] if fn == "par_quicksort" else [])
UC("c18-canary", "par_sort", "k18_canary()", {"C18": "quick"}, "bounded", [], "canary", unwind=8, expect="fail", no_cover=True)

# ---------------------------------------------------------------------------
# code-point representation paths (character model + stubs)
# ---------------------------------------------------------------------------
CHAR_STUBS = [("crate::chars::to_lower_case", "crate::chars::verif_charmodel::model_fold"),
              ("crate::chars::normalize::normalize", "crate::chars::verif_charmodel::model_normalize"),
              ("crate::chars::char_class_non_ascii", "crate::chars::verif_charmodel::model_class_non_ascii")]
CM_PROPS = {"C01": "quick", "C02": "quick", "C03": "quick", "C05": "quick"}
U("c01-charmodel-valid-non-ascii", "charmodel", "c01_charmodel_valid_non_ascii", CM_PROPS, "complete", ["chars::to_lower_case", "chars::is_upper_case", "chars::normalize::normalize", "chars::char_class_non_ascii"],
  "for each of the 16 non-ASCII characters of the model domain: the real to_lower_case / is_upper_case / normalize / char_class_non_ascii / is_whitespace return what the model table says", cost=6, core=True)
U("c01-charmodel-valid-ascii", "charmodel", "c01_charmodel_valid_ascii", CM_PROPS, "complete", ["chars::to_lower_case", "chars::is_upper_case", "chars::normalize::normalize"],
  "for all 128 ASCII characters: the real to_lower_case / is_upper_case / normalize return what the model table says")
for (h, n, k) in ((4, 3, 0), (4, 3, 1), (5, 3, 0)):
    UC("c10-opt-setup-char-h%d-n%d-k%d" % (h, n, k), "optimal", "opt_setup_char::<%d,%d,%d>()" % (h, n, k), {"C10": "quick", "C01": "quick"}, "bounded", ["fuzzy_optimal::MatcherDataView::setup"],
       "MatcherDataView::setup (code-point haystack) against its contract: true <=> the needle is a normalised subsequence of the window; window copy normalised, bonus[i] the position bonus; when true every row_offs[k] holds the leftmost-embedding position (no entry is left as stale scratch memory)",
       unwind=max(h + 3, 7), bound="window of %d code points holding ASCII values (all bytes) with arbitrary earlier slab content (128 symbolic bytes), ASCII needle %d (all bytes, folded), %s, symbolic ignore_case/normalize; the non-ASCII branches of the character functions (unreachable for these values) replaced by the character model; precondition = postcondition of prefilter_non_ascii" % (h, n, CFGNAME[k]), cost=2, core=((h, n, k) == (4, 3, 0)), stubs=CHAR_STUBS)
REPNAME = {1: "Unicode x Ascii", 2: "Unicode x Unicode", 3: "Ascii x Unicode(ASCII-only needle)", 4: "Unicode(ASCII-only haystack) x Ascii"}
UNI_FNS = {0: ["Matcher::fuzzy_matcher_impl", "Matcher::prefilter_non_ascii", "Matcher::substring_match_1_non_ascii", "Matcher::fuzzy_match_optimal::<char,_>", "Matcher::exact_match_impl"],
           1: ["Matcher::fuzzy_match_greedy_impl", "Matcher::prefilter_non_ascii", "Matcher::fuzzy_match_greedy_::<char,_>"],
           2: ["Matcher::substring_match_impl", "Matcher::prefilter_non_ascii", "Matcher::substring_match_1_non_ascii", "Matcher::substring_match_non_ascii"],
           3: ["Matcher::prefix_match", "Matcher::exact_match_impl", "Utf32Str::leading_white_space"],
           4: ["Matcher::postfix_match", "Matcher::exact_match_impl", "Utf32Str::trailing_white_space"],
           5: ["Matcher::exact_match", "Matcher::exact_match_impl"]}
for rep in (1, 2, 3, 4):
    for alg, (aname, _) in ALGS.items():
        decp = ["C01"] if alg <= 1 else ["C05"]
        if rep == 1:
            shapes = ((4, 1), (4, 2), (3, 3), (5, 3))
        elif rep == 2:
            shapes = ((4, 1), (4, 2), (5, 3))
        elif rep == 3:
            shapes = ((3, 2),)
        else:
            shapes = ((4, 2),) if alg <= 2 else ()
        for (h, n) in shapes:
            heavy = alg == 0 and 2 <= n < h
            tier = "quick" if ((rep == 1 and (h, n) in ((4, 2), (3, 3))) or (rep == 1 and (h, n) == (4, 1) and alg in (0, 2)) or (rep == 2 and (h, n) == (4, 2)) or rep in (3, 4)) else "thorough"
            tag = "r%d-%s-h%d-n%d" % (rep, aname, h, n)
            bound = "entry point %s, %s, haystack %d, needle %d, chars from the model domain (ASCII + 16 non-ASCII), DEFAULT config" % (aname, REPNAME[rep], h, n)
            dp = dict((p, tier) for p in decp)
            if rep != 3:
                dp["C10"] = tier
            UC("c01-uni-dec-" + tag, "uni", "uni_decision::<%d,%d,%d,%d,0>()" % (rep, alg, h, n), dp, "bounded", UNI_FNS[alg],
               "%s_match (%s) succeeds exactly when the documented relation holds over the characters" % (aname, REPNAME[rep]),
               unwind=max(h + 3, 7), bound=bound + ("; fuzzy_match_optimal replaced by its contract" if heavy else ""), cost=5 if heavy else 4, timeout=1500, stubs=CHAR_STUBS + (OPT_STUB if heavy else []),
               expect="known:D2" if rep == 3 else "pass", core=(rep == 3 and alg in (0, 2)))
            if rep in (1, 2):
                wp = {"C02": tier, "C03": tier}
                wp.update(dp)
                UC("c02-uni-wit-" + tag, "uni", "uni_witness::<%d,%d,%d,%d,0>()" % (rep, alg, h, n), wp, "bounded", UNI_FNS[alg],
                   "%s_indices (%s): same decision; W; contiguous+anchored for non-fuzzy kinds; score == fzf scheme; None appends nothing" % (aname, REPNAME[rep]),
                   unwind=max(h + 3, 7), bound=bound + ("; fuzzy_match_optimal replaced by its contract" if heavy else ""), cost=6 if heavy else 5, timeout=1500, stubs=CHAR_STUBS + (OPT_STUB if heavy else []))
            if rep == 1 and (h, n) == (4, 2):
                UC("c03-uni-agree-" + tag, "uni", "uni_agree::<%d,%d,%d,%d,0>()" % (rep, alg, h, n), {"C03": tier}, "bounded", UNI_FNS[alg],
                   "%s (%s): score-only and indices variants agree" % (aname, REPNAME[rep]), unwind=max(h + 3, 7), bound=bound, cost=5, timeout=1500, stubs=CHAR_STUBS)
for rep in (1, 2):
    for (h, n) in ((4, 2), (5, 3)):
        tier = "quick" if h == 4 else "thorough"
        UC("c01-uni-fallback-dec-r%d-h%d-n%d" % (rep, h, n), "uni", "uni_decision::<%d,0,%d,%d,0>()" % (rep, h, n), {"C01": tier, "C10": tier}, "bounded", UNI_FNS[0] + ["Matcher::fuzzy_match_greedy_::<char,_>"],
           "fuzzy_match (%s) with the slab refusing (greedy fallback forced): still decides the normalised-subsequence relation" % REPNAME[rep], unwind=max(h + 3, 7),
           bound="%s, haystack %d, needle %d, model-domain chars, MatrixSlab::alloc stubbed to return None" % (REPNAME[rep], h, n), cost=5, stubs=CHAR_STUBS + REFUSE, core=(rep == 1 and h == 4))
        UC("c02-uni-fallback-wit-r%d-h%d-n%d" % (rep, h, n), "uni", "uni_witness::<%d,0,%d,%d,0>()" % (rep, h, n), {"C02": tier, "C01": tier, "C03": tier}, "bounded", UNI_FNS[0] + ["Matcher::fuzzy_match_greedy_::<char,_>"],
           "fuzzy_indices (%s) with the slab refusing: same decision, W, score == scheme" % REPNAME[rep], unwind=max(h + 3, 7),
           bound="%s, haystack %d, needle %d, MatrixSlab::alloc stubbed to return None" % (REPNAME[rep], h, n), cost=6, stubs=CHAR_STUBS + REFUSE)
# the real fuzzy_match_optimal on code-point haystacks (the entry obligations above replace it by
# its contract; this is the callee-against-body side for H = char)
for (h, n, st) in ((3, 2, 0), (4, 2, 1), (4, 2, 0)):
    UC("c01-uni-opt-real-h%d-n%d-s%d" % (h, n, st), "uni", "uni_opt_real::<%d,%d,%d>()" % (h, n, st), {"C01": "quick", "C02": "quick", "C03": "quick"}, "bounded",
       ["Matcher::fuzzy_match_optimal::<char, AsciiChar>", "MatcherDataView::<char>::setup", "MatcherDataView::score_row", "MatcherDataView::reconstruct_optimal_path"],
       "the REAL fuzzy_match_optimal on a code-point haystack under prefilter_non_ascii's postcondition: Some <=> normalised subsequence of the window; W; score == fzf scheme; None appends nothing", unwind=7,
       bound="code-point haystack window of %d chars%s from the model domain, ASCII needle %d, DEFAULT config, 256-byte slab" % (h - st, " preceded by one char" if st else "", n), cost=6, timeout=1500, stubs=CHAR_STUBS, core=(h == 3))
for rep in (1, 2):
    for (h, n) in ((4, 2), (4, 1), (5, 3)):
        UC("c01-uni-prefilter-r%d-h%d-n%d" % (rep, h, n), "uni", "uni_prefilter::<%d,%d,%d>()" % (rep, h, n), {"C01": "quick"}, "bounded", ["Matcher::prefilter_non_ascii"],
           "prefilter_non_ascii (%s): never rejects a haystack containing the needle as a normalised subsequence; start = first occurrence of needle[0], end-1 = last occurrence of the last needle char after start" % REPNAME[rep],
           unwind=max(h + 3, 7), bound="%s, haystack %d, needle %d, model-domain chars, only_greedy symbolic" % (REPNAME[rep], h, n), cost=4, stubs=CHAR_STUBS)
for uni in (False, True):
    for L in (3, 4):
        UC("c05-white-space-%s-%d" % ("unicode" if uni else "ascii", L), "uni", "white_space_counts::<%s,%d>()" % ("true" if uni else "false", L), {"C05": "quick"}, "bounded", ["Utf32Str::leading_white_space", "Utf32Str::trailing_white_space"],
           "leading/trailing_white_space return the number of leading/trailing whitespace characters (0/0 when everything is whitespace)", unwind=L + 3,
           bound="%s content of length %d (model domain, U+000B excluded)" % ("code-point" if uni else "ASCII", L), cost=3, stubs=CHAR_STUBS if uni else [])
UC("c01-uni-canary", "uni", "uni_canary()", {"C01": "quick", "C05": "quick"}, "bounded", [], "canary", unwind=8, expect="fail", no_cover=True, stubs=CHAR_STUBS)

# ---------------------------------------------------------------------------
# C15 pattern composition, C14 (partial) marker grammar
# ---------------------------------------------------------------------------
KN = {0: "fuzzy", 1: "substring", 2: "prefix", 3: "postfix", 4: "exact"}
PAT_FNS = ["pattern::Atom::score", "pattern::Atom::indices", "pattern::Pattern::score", "pattern::Pattern::indices"]
for (k1, n1, k2, n2) in ((0, 0, 1, 0), (0, 0, 1, 1), (1, 1, 0, 0), (2, 0, 3, 0), (2, 0, 3, 1), (4, 0, 0, 0), (4, 1, 2, 0), (1, 0, 4, 1)):
    tag = "%s%s-%s%s" % ("not-" if n1 else "", KN[k1], "not-" if n2 else "", KN[k2])
    fz = 0 in (k1, k2)
    shape = "3,%d,%s,%d,%s" % (k1, "true" if n1 else "false", k2, "true" if n2 else "false")
    what = "[%s%s atom (1 char), %s%s atom (2 chars)]" % ("negated " if n1 else "", KN[k1], "negated " if n2 else "", KN[k2])
    bound = "ASCII haystack 3 over {a,b,c,A,space}, needles 1 and 2 chars over {a,b,c,space}, symbolic ignore_case/normalize per atom, DEFAULT bonuses" + ("; fuzzy_match_optimal replaced by its contract" if fz else "")
    UC("c15-pattern-score-" + tag, "pattern", "pattern_score_two_atoms::<%s>()" % shape, {"C15": "quick"}, "bounded", PAT_FNS[:1] + PAT_FNS[2:3],
       "Pattern::score of %s == conjunction with negation, sum of positive scores; the caller's matcher may carry any earlier case/normalisation setting" % what,
       unwind=8, bound=bound, cost=6, timeout=1500, stubs=OPT_STUB if fz else [])
    UC("c15-pattern-indices-" + tag, "pattern", "pattern_indices_two_atoms::<%s>()" % shape, {"C15": "quick"}, "bounded", PAT_FNS[1:2] + PAT_FNS[3:],
       "Pattern::indices of %s: same decision and score as Pattern::score, positive atoms' indices appended in atom order (valid witnesses), negated atoms append nothing" % what,
       unwind=8, bound=bound, cost=7, timeout=1500, stubs=OPT_STUB if fz else [], core=(tag == "substring-not-exact"))
    UC("c15-pattern-indices-h2-" + tag, "pattern", "pattern_indices_two_atoms::<%s>()" % ("2" + shape[1:]), {"C15": "quick"}, "bounded", PAT_FNS[1:2] + PAT_FNS[3:],
       "Pattern::indices of %s on a 2-character haystack: same decision and score as Pattern::score, indices in atom order, negated atoms append nothing" % what,
       unwind=8, bound=bound.replace("ASCII haystack 3", "ASCII haystack 2"), cost=5, timeout=1500, stubs=OPT_STUB if fz else [])
UC("c15-pattern-empty", "pattern", "pattern_empty()", {"C15": "quick"}, "bounded", PAT_FNS[2:], "an empty pattern matches everything with score 0 and appends nothing", unwind=8, bound="ASCII haystack 3")
UC("c15-multipattern-two-columns", "multipattern", "multipattern_two_columns()", {"C15": "thorough"}, "bounded", ["nucleo::pattern::MultiPattern::score", "nucleo::pattern::MultiPattern::reparse", "pattern::Pattern::parse"],
   "MultiPattern [\"a\", \"!b\"] over two columns == conjunction of the column patterns; matches iff column 0 contains a/A and column 1 contains no b/B", unwind=12,
   bound="two columns of 2 ASCII bytes each, concrete pattern texts parsed by the real parser, real 135 KB matcher", cost=8, timeout=1500)
UC("c15-multipattern-empty", "multipattern", "multipattern_empty()", {"C15": "quick"}, "bounded", ["nucleo::pattern::MultiPattern::score", "nucleo::pattern::MultiPattern::is_empty"],
   "an empty multi pattern matches everything with score 0", unwind=8, bound="two columns of 2 ASCII bytes", cost=4)
UC("c15-pattern-canary", "pattern", "pattern_canary()", {"C15": "quick", "C14": "quick"}, "bounded", [], "canary", unwind=8, expect="fail", no_cover=True)
PARSE_STUB = [("crate::pattern::Atom::new_inner", "crate::pattern::verif_pattern::recording_new_inner")]
for L in (1, 2, 3, 4, 5):
    UC("c14-parse-markers-%d" % L, "pattern", "parse_markers::<%d>()" % L, {"C14": "quick"}, "bounded", ["pattern::Atom::parse"],
       "Atom::parse on every ASCII string of %d bytes: negation, kind markers, escaped markers, escaped trailing dollar and the text handed to new_inner follow the documented grammar (new_inner replaced by a stub recording its arguments)" % L,
       unwind=8, bound="all ASCII strings of exactly %d bytes (parse inspects at most the first two and last two bytes)" % L, cost=3, stubs=PARSE_STUB)
NI_STUBS = CHAR_STUBS + [("crate::chars::is_upper_case", "crate::chars::verif_charmodel::model_is_upper")]
LEADNAME = {0xC3: "ä Ä ß é É à", 0xCF: "ς σ", 0xC5: "ſ", 0xC2: "µ", 0xCE: "Σ"}
TAILNAME = {0: "backslash space", 1: "backslash x", 2: "x backslash", 3: "x y", 4: "space backslash", 5: "X y", 6: "backslash X"}
for (lead, tail, case, esc) in ((0xC3, 6, 1, True), (0xC3, 6, 2, True), (0xC3, 0, 1, True), (0xC3, 0, 2, True), (0xC3, 1, 2, True), (0xC3, 2, 2, True), (0xC3, 4, 1, True), (0xC3, 3, 2, False), (0xC3, 5, 2, True),
                                (0xCF, 3, 2, True), (0xCF, 0, 1, True), (0xC5, 3, 2, True), (0xC2, 1, 1, True), (0xCE, 5, 2, False)):
    UC("c14-new-inner-unicode-%x-t%d-c%d-%s" % (lead, tail, case, "esc" if esc else "noesc"), "pattern",
       "new_inner_unicode::<%d,%d,%d,true,%s>()" % (lead, tail, case, "true" if esc else "false"), {"C14": "quick"}, "bounded", ["pattern::Atom::new_inner (code-point branch)"],
       "Atom::new_inner on [one of {%s}] + \"%s\", CaseMatching::%s, Normalization::Smart, escape_whitespace=%s: needle == unescaped text (folded under Ignore), smart case / smart normalisation flags as documented" % (LEADNAME[lead], TAILNAME[tail], {1: "Ignore", 2: "Smart"}[case], esc),
       unwind=12, bound="3 characters: a symbolic non-ASCII character of the model domain + a concrete two-character escape shape; unicode-segmentation feature OFF; char-level functions = model table", cost=5, timeout=1500, stubs=NI_STUBS, features=NOSEG)
for L in (2, 3, 4):
    UC("c14-split-atoms-%d" % L, "pattern", "split_atoms::<%d>()" % L, {"C14": "quick" if L <= 3 else "thorough"}, "bounded", ["pattern::pattern_atoms"],
       "pattern_atoms on every ASCII string of %d bytes: split at every whitespace not preceded by a backslash and nowhere else; pieces are consecutive slices" % L,
       unwind=L + 4, bound="all ASCII strings of exactly %d bytes" % L, cost=8, timeout=1500)

# ---------------------------------------------------------------------------
# C17 (partial) string conversion
# ---------------------------------------------------------------------------
U32_FNS = ["utf32_str::has_ascii_graphemes", "Utf32Str::new", "Utf32String::from(&str|String|Box<str>|Cow)"]
for L in (2, 3, 4):
    UC("c17-ascii-decision-%d" % L, "utf32", "k17_ascii_decision::<%d>()" % L, {"C17": "quick"}, "bounded", U32_FNS[:1],
       "has_ascii_graphemes(s) <=> s is ASCII and contains no CR LF, for every valid UTF-8 string of %d bytes" % L, unwind=L + 4, bound="all valid UTF-8 strings of exactly %d bytes" % L, cost=4)
WHICHNAME = {0: "Utf32Str::new", 1: "From<&str>", 2: "From<String>", 3: "From<Box<str>>", 4: "From<Cow::Borrowed>", 5: "From<Cow::Owned>"}
for L in (0, 2):
    for w in range(6):
        UC("c17-constructor-ascii-%d-w%d" % (L, w), "utf32", "k17_constructor_ascii::<%d,%d>()" % (L, w), {"C17": "quick"}, "bounded", U32_FNS,
           "ASCII text without CR LF: %s gives the ASCII form holding the original bytes" % WHICHNAME[w], unwind=L + 5, bound="all ASCII strings of %d bytes; unicode-segmentation feature OFF" % L, cost=5, features=NOSEG, timeout=1500)
ACC_FNS = ["Utf32Str::len", "Utf32Str::is_empty", "Utf32Str::get", "Utf32Str::first", "Utf32Str::last", "Utf32Str::chars", "Chars::next", "Chars::next_back", "Utf32Str::slice", "Utf32Str::slice_u32"]
for L in (0, 3, 4):
    UC("c17-accessors-ascii-%d" % L, "utf32", "k17_accessors_ascii::<%d>()" % L, {"C17": "quick"}, "bounded", ACC_FNS,
       "Utf32Str::Ascii: len, is_empty, get, first, last, chars (both directions), slice / slice_u32 for every range form agree with the content", unwind=L + 4, bound="every ASCII content of length %d, every valid range" % L, cost=4)
    UC("c17-accessors-unicode-%d" % L, "utf32", "k17_accessors_unicode::<%d>()" % L, {"C17": "quick"}, "bounded", ACC_FNS,
       "Utf32Str::Unicode: same", unwind=4 * L + 6, bound="every char content of length %d, every valid range" % L, cost=4)
UC("c17-owned-accessors-3", "utf32", "k17_owned_accessors::<3>()", {"C17": "quick"}, "bounded", ["Utf32String::len", "Utf32String::is_empty", "Utf32String::slice", "Utf32String::slice_u32"],
   "Utf32String accessors agree with Utf32Str's", unwind=18, bound="every char content of length 3, every valid range", cost=4)
UC("c17-canary", "utf32", "k17_canary()", {"C17": "quick"}, "bounded", [], "canary", unwind=6, expect="fail", no_cover=True)

# ---------------------------------------------------------------------------
# Verus: step functions extracted verbatim + row induction (unbounded)
# ---------------------------------------------------------------------------
def UV(name, fns, props, functions, desc, **kw):
    U(name, None, None, props, "complete", functions, desc, engine="verus", vspec="steps.vspec", verus_fns=fns, no_cover=True, **kw)


UV("v-next-m-cell", ["next_m_cell"], {"C03": "quick", "C04": "quick", "C10": "quick"}, ["fuzzy_optimal::next_m_cell (extracted verbatim)"],
   "Verus: next_m_cell == README M-step with literal numbers, grows by <= 26, result >= 16, no overflow (all inputs within the headroom)")
UV("v-p-score", ["p_score"], {"C03": "quick", "C04": "quick"}, ["fuzzy_optimal::p_score (extracted verbatim)"],
   "Verus: p_score == max(m-3, p-1) floored at 0, never exceeds its inputs")
UV("v-constants", ["lemma_constants"], {"C03": "quick"}, ["score::SCORE_MATCH, PENALTY_GAP_START, PENALTY_GAP_EXTENSION, BONUS_BOUNDARY, BONUS_CONSECUTIVE, matrix::MAX_NEEDLE_LEN (extracted)"],
   "Verus: the extracted constants are 16 / 3 / 1 / 8 / 4 / 2048")
UV("v-rows-fit-u16", ["lemma_rows_fit_u16", "lemma_row_bound_closed_form"], {"C03": "quick", "C10": "quick"}, ["row induction over next_m_cell's contract"],
   "Verus (induction, unbounded): for every row r < MAX_NEEDLE_LEN, 44 + 26 r <= 65509, i.e. next_m_cell's precondition holds for every row the slab admits and no DP cell can wrap u16")

# ---------------------------------------------------------------------------
BOUNDED_NOTE = " String-level obligations are bounded stand-ins (lengths stated per obligation, full byte alphabet, all configurations) and are not counted as proved."
KANI = "Kani/CBMC contract harnesses and function contracts on the real functions (scratch copy of /repo, contract modules injected)"
NOTE_COMMON = "Trusted: Kani/CBMC/SAT solvers, Kani's pinned std, memchr replaced by a naive reference shim in the verified copy (differential-tested), termination not verified. Matchers run around a 256-byte slab in string-level harnesses (stricter than the 135 KB one). Non-ASCII haystack paths are checked over a 15-character non-ASCII alphabet + all ASCII, with the character-level functions replaced by a table that a separate complete obligation ties to the real functions."


def P(level, text, technique, explanation, note=NOTE_COMMON, assumptions=()):
    return dict(level=level, manifest_text=text, technique=technique, explanation=explanation, level_note=note, assumptions=list(assumptions))


PROPERTIES = {
    "C01": P("other", "bounded contract checking of the real functions: prefilter -> greedy/optimal -> four fuzzy entry points decide exactly the normalised-subsequence relation, for every byte content of haystacks <= 5-6 and needles <= 3 (incl. empty, equal length, longer), all configurations; complete sub-obligation: the prefilter's byte search relation. Bounded, not a proof.",
             "contract-based deductive verification (Kani function contracts / contract harnesses, bounded strings)",
             "Decision contracts against the normalised-subsequence relation." + BOUNDED_NOTE),
    "C02": P("other", "bounded contract checking: witness contract W (one index per needle char, prior content untouched, strictly increasing, in range, normalises to the needle char; contiguous+anchored for non-fuzzy kinds; None appends nothing) as postcondition of every indices-returning function; MatrixCell back-pointer encoding proved complete.",
             "contract-based deductive verification (Kani, bounded strings; complete for the cell encoding)",
             "Witness contract W on every indices-returning function." + BOUNDED_NOTE),
    "C03": P("other", "constants, bonus rules, ASCII classes and both recurrence steps are PROVED for all inputs against the fzf scheme written with literal numbers (Kani complete + Verus on extracted code incl. the row induction for 'never wraps' on the matrix path); score == scheme(reported indices), variant agreement are bounded contract checks per function.",
             "contract-based deductive verification (Kani function contracts complete for step functions; Verus induction lemma; bounded string-level contracts)",
             "Bonus rules, classes, constants, recurrence steps proved complete; score == scheme(indices) per function on bounded strings." + BOUNDED_NOTE),
    "C04": P("other", "recurrence steps proved complete (Kani + Verus); on bounded strings: optimal score <= brute-force maximum over all alignments, >= naive full-matrix two-matrix recurrence, one-char needle == true optimum (both bonus configurations), prefer_prefix raises by 0..=8.",
             "contract-based deductive verification (Kani; Verus for steps; bounded strings with brute-force/naive-recurrence spec functions)",
             "Recurrence steps proved complete; optimality relations on bounded strings." + BOUNDED_NOTE),
    "C05": P("other", "bounded contract checking: substring (leftmost occurrence with highest first-char bonus), prefix/postfix/exact with the whitespace rule, as postconditions of the real functions and entry points (plus the callee-level contract of substring_match_ascii_with_prefilter under its call-site precondition), haystack <= 5-6, needle <= 3-4, all bytes.",
             "contract-based deductive verification (Kani contract harnesses, bounded strings)",
             "Substring/prefix/postfix/exact contracts against the documented relations." + BOUNDED_NOTE,
             assumptions=["U+000B is whitespace for char::is_whitespace (needle side) but not for u8::is_ascii_whitespace (ASCII haystack side); inputs containing it are excluded from the prefix/postfix/exact entry contracts"]),
    "C08": P("other", "partial: only the SEQUENTIAL content: index->slot map and entry/bucket layout proved for all indices/columns (complete); push/extend/get/count checked against the abstract append-only view on bounded single-threaded histories (lying iterators, bucket-boundary crossings). Nothing quantified over schedules is decided (Kani is single-threaded).",
             "contract-based deductive verification (Kani: complete arithmetic contracts + bounded sequential data-structure contract)",
             "partial: sequential content only." + BOUNDED_NOTE,
             note="Trusted: Kani/CBMC; atomics executed sequentially by CBMC; rayon/parking_lot not reached.", assumptions=["single thread"]),
    "C10": P("other", "slab layout proved for ALL sizes that pass alloc's guards and alloc's guards themselves (complete, Kani); prefix-penalty arithmetic for all start positions (complete); u16 headroom on the matrix path by Verus induction; panic/overflow/bounds freedom by CBMC's built-in checks inside every bounded string-level harness; history independence as three clauses: arbitrary prior scratch content gives the same result, a second call on a used matcher agrees, and every entry point leaves the configuration untouched (frame condition); contract of MatcherDataView::setup over arbitrary earlier slab content (every row offset the later phases index with is written).",
             "contract-based deductive verification (Kani complete layout/guard contracts + Verus induction + bounded string-level contracts with CBMC safety checks)",
             "Layout/guards/arithmetic complete; totality and history independence on bounded strings." + BOUNDED_NOTE),
    "C11": P("other", "partial: drop-exactly-once decided for bounded sequential non-panicking histories of one vector (extend with honest/short iterators, push, drop), over-reporting iterators must panic; the history with non-contiguous buckets (the one that exposed the Drop defect) takes ~10 min and runs in the thorough tier only. Panicking callbacks, concurrent drops, restart are not decided.",
             "contract-based deductive verification (Kani bounded data-structure contract with drop-counting payload)",
             "partial: sequential non-panicking histories." + BOUNDED_NOTE,
             note="Trusted: Kani/CBMC; no unwinding (Kani aborts on panic); single thread.", assumptions=["single thread; no panics"]),
    "C14": P("other", "partial: the marker grammar of Atom::parse (negation, kind markers, escaped markers, literal dollar, text passed on) for every ASCII string up to 5 bytes against a stub recording new_inner's arguments, and pattern_atoms' splitting at unescaped ASCII whitespace for every ASCII string up to 3-4 bytes. the code-point branch of new_inner on one symbolic non-ASCII character followed by six concrete two-character escape shapes. NOT decided: the ASCII branch of new_inner (String / str::split_once machinery: every variant, even without escapes, exceeded 500 s), longer texts, non-ASCII whitespace splitting, reparse == parse.",
             "contract-based deductive verification (Kani contract harnesses, bounded byte strings, callee replaced by a recording stub)",
             "partial: marker grammar and splitting on bounded ASCII strings." + BOUNDED_NOTE,
             note="Trusted: Kani/CBMC; Atom::new_inner is NOT verified (replaced by a stub that records its arguments).", assumptions=["Atom::new_inner stubbed in the parse obligations"]),
    "C15": P("other", "bounded contract checking of Atom/Pattern score and indices composition: two-atom patterns of every kind pair listed, both polarities, symbolic case/normalisation flags, symbolic ASCII haystack of 3; reference = the entry point called on a fresh matcher per atom; MultiPattern::score over two columns (thorough tier). match_list is NOT covered (a three-input obligation exceeded 600 s: Utf32Str::new + sort_by_key).",
             "contract-based deductive verification (Kani contract harnesses, bounded)",
             "Pattern composition on bounded inputs; match_list not covered." + BOUNDED_NOTE),
    "C16": P("proof", "every deciding obligation quantifies over the whole char domain (all 1,112,064 scalar values) x all configurations and is loop-free or fully unwound with unwinding assertions on: to_lower_case/is_upper_case == Unicode simple case folding oracle, normalize contract (documented blocks, NFKD base letter, idempotent, ASCII fixed), agreement of every normalising entry point incl. the prefilter's byte search. Complete proofs by Kani/CBMC on the real functions.",
             "contract-based deductive verification (Kani, complete over the full char domain)",
             "Complete proofs over the whole char domain.",
             note="Trusted: Kani/CBMC/cadical; Unicode oracle = Python unicodedata 14.0 cross-checked with regex-syntax 16.0 tables (generated/oracle_unicode.json); char_class_non_ascii replaced by 'returns any class' in the agreement obligation (sound over-approximation).",
             assumptions=["Unicode oracle = Python unicodedata 14.0 cross-checked with regex-syntax 16.0 tables"]),
    "C17": P("other", "partial: representation decision (ASCII form <=> ASCII and no CR LF; bytes kept), equality of all six constructors on ASCII text, and agreement of len/is_empty/get/first/last/chars/slice/slice_u32 (borrowed and owned type) with the content, on bounded strings. NOT decided: anything about non-ASCII / CR LF text beyond the representation decision - segmentation into extended grapheme clusters, projection to the first code point, CR LF -> LF, equality of the constructors there (the unicode-segmentation dependency; even with that feature off the code-point constructors exceeded every time limit), Display/Debug.",
             "contract-based deductive verification (Kani contract harnesses, bounded strings; constructors in the crate's unicode-segmentation-off configuration)",
             "partial: representation decision, constructor agreement, accessors." + BOUNDED_NOTE,
             note="Trusted: Kani/CBMC; memmem shim; unicode-segmentation is NOT verified (feature switched off in the constructor obligations).", assumptions=["constructor obligations run with the unicode-segmentation feature off: graphemes() == str::chars()"]),
    "C18": P("other", "partial: contracts (sorted / partitioned / permutation via a symbolic probe value) on the ten sequential building blocks of the parallel sort for every small array over a strict weak order with ties. Larger slices, real parallel join, mid-sort cancellation and the total-order clause are not decided.",
             "contract-based deductive verification (Kani contract harnesses on the leaf functions, bounded arrays)",
             "partial: sequential building blocks on small arrays." + BOUNDED_NOTE,
             note="Trusted: Kani/CBMC; single thread; rayon::join never reached at these sizes.", assumptions=["single thread"]),
}

NOT_APPLICABLE = [
    dict(property_id="C06", reason="quantifies over thread interleavings of Nucleo::tick / Worker::run (rayon pool, parking_lot mutex); Kani is single-threaded and cannot compile past rayon's catch_unwind, Verus would need the worker rewritten with its permission types (a model, a different family)"),
    dict(property_id="C07", reason="quantifies over histories of tick/timeouts/cancellation and schedules; needs executing the worker pool; the append heuristic alone needs parsing symbolic pattern texts, measured infeasible under CBMC"),
    dict(property_id="C09", reason="data-race freedom under the language memory model is a happens-before property of executions; neither Kani nor Verus models Rust atomics' orderings on this code"),
    dict(property_id="C12", reason="histories of restart x tick x completing runs; Nucleo cannot be constructed or ticked under Kani (thread pool), no contract on a single function expresses it"),
    dict(property_id="C13", reason="pure interleaving property (tick vs. end of the background run); no contract within reach of a single-threaded deductive verifier can express it"),
    dict(property_id="C19", reason="depends on tick/run and injector threads (schedules and histories); outside single-threaded contract verification"),
    dict(property_id="C20", reason="every transition of interest goes through Nucleo::new/tick (rayon pool, spawn); stubbing them would verify a shell, and Verus has no specification for Arc::strong_count"),
]


def pre_run(verif, repo, modules):
    """regenerate oracle tables when missing (setup_cmd normally did it)"""
    gen = os.path.join(verif, "generated", "oracle_unicode.rs")
    if "chars" in modules and not os.path.isfile(gen):
        subprocess.run([sys.executable, os.path.join(verif, "oracle", "gen_unicode.py")], check=True, stdout=subprocess.DEVNULL)
