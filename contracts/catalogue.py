"""Contract catalogue: which obligation decides which property, where its contract lives,
which real functions it puts under contract and whether it is a complete proof or a bounded
stand-in.  Read by lib/nvcheck.py.  See DESIGN.md section 3."""
import os, subprocess, sys

# ---------------------------------------------------------------------------
# modules: contract files and the real source file each is injected into
# ---------------------------------------------------------------------------
MODULES = {
    "chars": dict(file="kani/chars.rs", pkg="nucleo-matcher", inject="matcher/src/chars.rs", parent="chars"),
    "spec": dict(file="kani/spec.rs", pkg="nucleo-matcher", inject="matcher/src/lib.rs", parent="", needs=["matrix"]),
    "matrix": dict(file="kani/matrix.rs", pkg="nucleo-matcher", inject="matcher/src/matrix.rs", parent="matrix"),
    "optimal_steps": dict(file="kani/optimal_steps.rs", pkg="nucleo-matcher", inject="matcher/src/fuzzy_optimal.rs", parent="fuzzy_optimal"),
    "prefilter": dict(file="kani/prefilter.rs", pkg="nucleo-matcher", inject="matcher/src/prefilter.rs", parent="prefilter", needs=["spec"]),
    "exact": dict(file="kani/exact.rs", pkg="nucleo-matcher", inject="matcher/src/exact.rs", parent="exact", needs=["spec"]),
    "score": dict(file="kani/score.rs", pkg="nucleo-matcher", inject="matcher/src/score.rs", parent="score", needs=["spec"]),
}

# kani::requires/ensures attributes placed on the real functions in the scratch copy
ATTRS = [
    dict(module="optimal_steps", file="matcher/src/fuzzy_optimal.rs", anchor="fn next_m_cell(", attrs=[
        "kani::requires(bonus <= 10 && m_cell.consecutive_bonus <= 10 && p_score <= verif_optimal_steps::STEP_HEADROOM && m_cell.score <= verif_optimal_steps::STEP_HEADROOM)",
        "kani::ensures(|r| verif_optimal_steps::next_m_cell_post(p_score, bonus, m_cell, r))",
    ]),
    dict(module="optimal_steps", file="matcher/src/fuzzy_optimal.rs", anchor="fn p_score(", attrs=[
        "kani::ensures(|r| verif_optimal_steps::p_score_post(prev_p_score, prev_m_score, r))",
    ]),
]
HOOKS = []   # cfg(kani)-only helper items appended to real source files in the scratch copy
FEATURES = {}

TRUSTED_BASE = [
    "Kani 0.68.0 / CBMC 6.11.0 and the SAT back ends (cadical, kissat): bit-precise machine integers, bounded memory model for unsafe code",
    "Kani's pinned rustc nightly and its std (char::is_lowercase etc. as compiled by that toolchain, which is not the toolchain that builds the shipped crate)",
    "memchr crate replaced by the naive reference shim /verif/shim/memchr in the verified copy (assumed contract on a dependency; differential-tested natively)",
    "termination is not verified by Kani",
]

UNITS = []


def U(name, module, harness, props, kind, functions, desc, bound=None, expect="pass", timeout=900, cost=1, engine="kani", **kw):
    d = dict(name=name, module=module, harness=harness, props=props, kind=kind, functions=functions, desc=desc,
             bound=bound, expect=expect, timeout=timeout, cost=cost, engine=engine)
    d.update(kw)
    UNITS.append(d)


# ---------------------------------------------------------------------------
# C16  character normalisation
# ---------------------------------------------------------------------------
F_FOLD = ["chars::to_lower_case", "chars::is_upper_case", "chars::case_fold::CASE_FOLDING_SIMPLE"]
for i in range(2):
    U("c16-fold-oracle-r%d" % i, "chars", "c16_fold_oracle_r%d" % i, {"C16": "quick"}, "complete", F_FOLD,
      "for every char in slice %d/2 of the scalar-value space: to_lower_case(c) == Unicode simple case folding (oracle) and is_upper_case(c) <=> folding changes c" % i, cost=5)
U("c16-fold-idem", "chars", "c16_fold_idem", {"C16": "quick"}, "complete", F_FOLD,
  "for every char: to_lower_case is idempotent; ASCII other than A-Z untouched, A-Z -> +32", cost=5)
U("c16-norm-contract", "chars", "c16_norm_contract", {"C16": "quick"}, "complete", ["chars::normalize::normalize"],
  "for every char: normalize changes only documented blocks; NFKD = ASCII alnum + marks => that alnum; idempotent; ASCII untouched")
for i in range(2):
    U("c16-agree-anyclass-r%d" % i, "chars", "c16_agree_anyclass_r%d" % i, {"C16": "quick"}, "complete",
      ["<char as Char>::char_class_and_normalize", "<char as Char>::normalize"],
      "for every char in slice %d/2, every (ignore_case, normalize) and EVERY class char_class_non_ascii could return: char_class_and_normalize(c).0 == normalize(c) == fold(normalize(c))" % i, cost=4)
U("c16-agree-ascii", "chars", "c16_agree_ascii", {"C16": "quick"}, "complete",
  ["AsciiChar::char_class_and_normalize", "AsciiChar::normalize", "AsciiChar::char_class", "<char as Char>::char_class"],
  "for all 128 ASCII bytes x configs: AsciiChar's two normalising entry points agree, only A-Z change, and char on ASCII input == AsciiChar")
U("c16-canary", "chars", "c16_canary", {"C16": "quick"}, "complete", [], "canary: a false claim about to_lower_case must be refuted", expect="fail", no_cover=True)

# ---------------------------------------------------------------------------
# C03 / C04 / C10 / C02  step functions, bonus rules, slab layout (complete)
# ---------------------------------------------------------------------------
STEP_PROPS = {"C03": "quick", "C04": "quick", "C10": "quick"}
U("c03-next-m-cell", "optimal_steps", "c03_next_m_cell_contract", STEP_PROPS, "complete", ["fuzzy_optimal::next_m_cell"],
  "function contract on the real next_m_cell: for all (p, bonus<=10, cell with consecutive_bonus<=10, scores<=65509) the result is the README M-step with literal numbers, score grows by <=26, no overflow")
U("c03-p-score", "optimal_steps", "c03_p_score_contract", STEP_PROPS, "complete", ["fuzzy_optimal::p_score"],
  "function contract on the real p_score: == (max(m-3, p-1) floored at 0, m-3 > p-1) for all u16 pairs")
U("c03-unmatched-sentinel", "optimal_steps", "c03_unmatched_sentinel", {"C03": "quick", "C04": "quick"}, "complete", ["fuzzy_optimal::next_m_cell", "fuzzy_optimal::UNMATCHED"],
  "a computed cell is never equal to the UNMATCHED sentinel")
U("c03-steps-canary", "optimal_steps", "c03_steps_canary", {"C04": "quick"}, "complete", [], "canary", expect="fail", no_cover=True)
U("c03-bonus-rules", "score", "c03_bonus_rules", {"C03": "quick", "C04": "quick"}, "complete", ["Config::bonus_for", "Config::DEFAULT", "Config::match_paths", "Config::set_match_paths", "score::* constants"],
  "all 49 class pairs x {DEFAULT, match_paths(), set_match_paths()}: bonus_for == literal bonus rules; constants are 16/3/1/8/5/8/4/2")
U("c03-class-ascii", "score", "c03_class_ascii", {"C03": "quick", "C05": "quick"}, "complete", ["AsciiChar::char_class"],
  "all 256 bytes x 3 delimiter sets: AsciiChar::char_class == literal class table")
U("c02-matrix-cell", "matrix", "c02_matrix_cell_roundtrip", {"C02": "quick"}, "complete", ["MatrixCell::set", "MatrixCell::get"],
  "set(p,m) then get(false)==p and get(true)==m for all prior cell contents")
U("c10-layout-ascii", "matrix", "c10_layout_views_ascii", {"C10": "quick"}, "complete", ["MatrixLayout::<AsciiChar>::new", "MatrixLayout::fieds_from_ptr"],
  "for ALL (h,n) passing alloc's guards: the five views lie inside the slab, are disjoint and aligned, matrix view has room for n rows", cost=8)
U("c10-layout-char", "matrix", "c10_layout_views_char", {"C10": "quick"}, "complete", ["MatrixLayout::<char>::new", "MatrixLayout::fieds_from_ptr"],
  "same for the code-point representation", cost=8)
U("c10-alloc-guards", "matrix", "c10_alloc_guards", {"C10": "quick"}, "complete", ["MatrixSlab::alloc"],
  "for every haystack length <= 70000 and needle length: alloc refuses when a guard fails; on success the views have the lengths the DP relies on and the matrix view lies inside the slab", cost=8)
U("c10-layout-canary", "matrix", "c10_layout_canary", {"C10": "quick"}, "complete", [], "canary", expect="fail", no_cover=True)

# calculate_score, bounded
SCORE_FNS = ["Matcher::calculate_score"]
U("c03-calculate-score-ascii-6-3", "score", "c03_calculate_score_ascii_6_3", {"C03": "quick", "C02": "quick", "C10": "quick"}, "bounded", SCORE_FNS,
  "calculate_score on every forward-greedy window: W (indices), score == fzf scheme on the indices, INDICES variants agree, prefer_prefix adds 0..=8",
  bound="ASCII haystack len 6, needle len 3, all windows, all configs, prior vector content <= 2", cost=9)
U("c03-calculate-score-ascii-5-2", "score", "c03_calculate_score_ascii_5_2", {"C03": "quick", "C02": "quick", "C04": "quick"}, "bounded", SCORE_FNS,
  "same", bound="ASCII haystack len 5, needle len 2", cost=5)
U("c03-calculate-score-ascii-7-3", "score", "c03_calculate_score_ascii_7_3", {"C03": "thorough", "C02": "thorough"}, "bounded", SCORE_FNS,
  "same", bound="ASCII haystack len 7, needle len 3", cost=9, timeout=3600)
U("c03-score-canary", "score", "c03_score_canary", {"C03": "quick", "C02": "quick"}, "bounded", [], "canary", expect="fail", no_cover=True)

# ---------------------------------------------------------------------------
BOUNDED_NOTE = " String-level obligations are bounded stand-ins (lengths stated per obligation, full byte alphabet, all configurations) and are not counted as proved."
PROPERTIES = {
    "C02": dict(level="other", explanation="Contract checking of the real functions with Kani/CBMC: witness contract W on every indices-returning function." + BOUNDED_NOTE, assumptions=[]),
    "C03": dict(level="other", explanation="Bonus rules, ASCII classes, constants and both recurrence steps are proved for all inputs against the scheme written with literal numbers (complete); score == scheme(reported indices) is checked per function on bounded strings." + BOUNDED_NOTE, assumptions=[]),
    "C04": dict(level="other", explanation="Recurrence steps proved complete; optimality relations checked on bounded strings." + BOUNDED_NOTE, assumptions=[]),
    "C10": dict(level="other", explanation="Slab layout proved for all sizes that pass alloc's guards (complete); panic/overflow/bounds freedom of the string-level functions is checked by CBMC's built-in checks on bounded strings." + BOUNDED_NOTE, assumptions=[]),
    "C16": dict(level="proof",
                explanation="Every deciding obligation quantifies over the whole char domain (1,112,064 scalar values, split into ranges that partition it) x all configurations and is loop-free or fully unwound with unwinding assertions on: complete proofs by Kani/CBMC on the real functions.",
                assumptions=["Unicode oracle = Python unicodedata 14.0 cross-checked with regex-syntax 16.0 tables (see generated/oracle_unicode.json)"]),
}


def pre_run(verif, repo, modules):
    """regenerate oracle tables when missing (setup_cmd normally did it)"""
    gen = os.path.join(verif, "generated", "oracle_unicode.rs")
    if "chars" in modules and not os.path.isfile(gen):
        subprocess.run([sys.executable, os.path.join(verif, "oracle", "gen_unicode.py")], check=True, stdout=subprocess.DEVNULL)
