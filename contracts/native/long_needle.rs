// Native replay of the witness family derived from the Verus row bound (contracts/verus/steps.vspec):
// a score can reach 36 + 26 (n-1), which exceeds u16::MAX from n = 2521 consecutive matches on.
// The matrix path is guarded (needle_len <= 2048, lemma_rows_fit_u16); the calculate_score path
// (equal-length match, greedy fallback, substring/prefix/postfix/exact) is not, so the derived
// witness haystack == needle == 'a' x n is run on the REAL code here (plain `cargo test`, debug
// build: an arithmetic overflow panics).  Injected as `#[cfg(test)] mod verif_native_long_needle`.
use crate::{Config, Matcher, Utf32Str};

fn run(n: usize, entry: u8) -> Option<u16> {
    let hay = vec![b'a'; n];
    let mut m = Matcher::new(Config::DEFAULT);
    let h = Utf32Str::Ascii(&hay);
    match entry {
        0 => m.fuzzy_match(h, h),
        1 => m.exact_match(h, h),
        2 => m.substring_match(h, h),
        3 => m.prefix_match(h, h),
        _ => m.fuzzy_match_greedy(h, h),
    }
}

fn expected(n: usize) -> u16 {
    let unwrapped: u32 = 16 + 2 * 10 + 26 * (n as u32 - 1);
    unwrapped.min(u16::MAX as u32) as u16
}

#[test]
fn verif_native_long_needle_no_wrap() {
    for &n in &[2520usize, 2521, 2522, 2600, 5000, 70000] {
        for entry in 0..5u8 {
            let r = run(n, entry);
            assert_eq!(r, Some(expected(n)), "n = {n}, entry point {entry}: the score of n consecutive matches is 36 + 26 (n-1) capped at u16::MAX, never wrapped");
        }
    }
}
