// Contracts for matcher/src/utf32_str.rs (C17, partial).  Injected as `utf32_str::verif_utf32`.
//
// Decided here: the representation decision (ASCII form <=> all-ASCII and no CR LF, bytes kept),
// that every constructor produces the same content, and that len / is_empty / get / first / last /
// chars (both directions) / slice / slice_u32 agree with that content.
// NOT decided: that non-ASCII text is segmented into extended grapheme clusters and projected to
// the first code point -- that is the unicode-segmentation dependency; the constructor obligations
// run in the crate's own `unicode-segmentation`-off configuration (graphemes() == str::chars()),
// because symbolic strings through the segmenter do not terminate under CBMC.
use super::*;
use std::borrow::Cow;

fn all_ascii(s: &[u8]) -> bool {
    let mut k = 0;
    while k < s.len() {
        if s[k] >= 128 {
            return false;
        }
        k += 1;
    }
    true
}

fn has_crlf(s: &[u8]) -> bool {
    let mut k = 0;
    while k + 1 < s.len() {
        if s[k] == b'\r' && s[k + 1] == b'\n' {
            return true;
        }
        k += 1;
    }
    false
}

/// representation decision on every valid UTF-8 string of L bytes
pub fn k17_ascii_decision<const L: usize>() {
    let bytes: [u8; L] = kani::any();
    if let Ok(s) = std::str::from_utf8(&bytes) {
        let expect = all_ascii(&bytes) && !has_crlf(&bytes);
        assert!(has_ascii_graphemes(s) == expect, "ASCII form exactly when the string is ASCII and contains no CR LF pair");
        kani::cover!(expect);
        kani::cover!(!expect);
    }
}

/// constructor WHICH (0 Utf32Str::new, 1 From<&str>, 2 From<String>, 3 From<Box<str>>,
/// 4 From<Cow::Borrowed>, 5 From<Cow::Owned>) yields the ASCII form holding the original bytes for
/// ASCII text without CR LF.  All six agreeing with the original bytes means they agree with each other.
pub fn k17_constructor_ascii<const L: usize, const WHICH: u8>() {
    let bytes: [u8; L] = kani::any();
    kani::assume(all_ascii(&bytes) && !has_crlf(&bytes));
    let s = unsafe { std::str::from_utf8_unchecked(&bytes) }; // ASCII by assumption
    if WHICH == 0 {
        let mut buf = Vec::new();
        match Utf32Str::new(s, &mut buf) {
            Utf32Str::Ascii(b) => assert!(b == &bytes[..], "the ASCII form holds the original bytes"),
            Utf32Str::Unicode(_) => assert!(false, "ASCII text without CR LF takes the ASCII form"),
        }
    } else {
        let a: Utf32String = match WHICH {
            1 => s.into(),
            2 => s.to_owned().into(),
            3 => s.to_owned().into_boxed_str().into(),
            4 => Cow::Borrowed(s).into(),
            _ => Cow::<str>::Owned(s.to_owned()).into(),
        };
        match &a {
            Utf32String::Ascii(x) => assert!(x.as_bytes() == &bytes[..], "the ASCII form holds the original bytes"),
            Utf32String::Unicode(_) => assert!(false, "ASCII text without CR LF takes the ASCII form"),
        }
        assert!(a.len() == L);
    }
    kani::cover!(true);
}

fn check_accessors(v: Utf32Str<'_>, content: &[char]) {
    let n = content.len();
    assert!(v.len() == n && v.is_empty() == (n == 0), "len / is_empty agree with the content");
    if n > 0 {
        assert!(v.first() == content[0] && v.last() == content[n - 1]);
        let i: u32 = kani::any();
        kani::assume((i as usize) < n);
        assert!(v.get(i) == content[i as usize], "get(i) is the i-th character");
    }
    // iteration, both directions
    let mut it = v.chars();
    let mut k = 0;
    while k < n {
        assert!(it.next() == Some(content[k]), "forward iteration yields the content in order");
        k += 1;
    }
    assert!(it.next().is_none());
    let mut it = v.chars();
    let mut k = n;
    while k > 0 {
        k -= 1;
        assert!(it.next_back() == Some(content[k]), "backward iteration yields the content in reverse");
    }
    assert!(it.next_back().is_none());
    // slicing, every valid range form
    let a: usize = kani::any();
    let b: usize = kani::any();
    kani::assume(a <= b && b <= n);
    let s1 = v.slice(a..b);
    let s2 = v.slice_u32(a as u32..b as u32);
    assert!(s1 == s2 && s1.len() == b - a && s1.is_ascii() == v.is_ascii(), "slice and slice_u32 agree and keep the representation");
    if b > a {
        assert!(s1.first() == content[a] && s1.last() == content[b - 1]);
        assert!(v.slice(a..=b - 1) == s1 && v.slice_u32(a as u32..=(b - 1) as u32) == s1, "inclusive ranges");
    }
    assert!(v.slice(..b) == v.slice(0..b) && v.slice(a..) == v.slice(a..n) && v.slice(..) == v, "open ranges");
}

pub fn k17_accessors_ascii<const L: usize>() {
    let bytes: [u8; L] = kani::any();
    kani::assume(all_ascii(&bytes));
    let mut content = ['\0'; L];
    let mut k = 0;
    while k < L {
        content[k] = bytes[k] as char;
        k += 1;
    }
    check_accessors(Utf32Str::Ascii(&bytes), &content);
    kani::cover!(true);
}

pub fn k17_accessors_unicode<const L: usize>() {
    let content: [char; L] = kani::any();
    check_accessors(Utf32Str::Unicode(&content), &content);
    kani::cover!(true);
}

/// the owned type's accessors agree with the borrowed type's
pub fn k17_owned_accessors<const L: usize>() {
    let content: [char; L] = kani::any();
    let owned = Utf32String::Unicode(content.to_vec().into_boxed_slice());
    assert!(owned.len() == L && owned.is_empty() == (L == 0));
    let a: usize = kani::any();
    let b: usize = kani::any();
    kani::assume(a <= b && b <= L);
    let v = Utf32Str::Unicode(&content);
    assert!(owned.slice(a..b) == v.slice(a..b), "Utf32String::slice == Utf32Str::slice");
    assert!(owned.slice_u32(a as u32..b as u32) == v.slice(a..b), "Utf32String::slice_u32 == Utf32Str::slice");
    assert!(owned.slice(..) == v && owned.slice_u32(..) == v);
    if b > a {
        assert!(owned.slice_u32(a as u32..=(b - 1) as u32) == v.slice(a..b));
    }
    kani::cover!(b > a);
}

/// canary: must FAIL
pub fn k17_canary() {
    let bytes: [u8; 2] = kani::any();
    kani::assume(all_ascii(&bytes));
    let s = unsafe { std::str::from_utf8_unchecked(&bytes) };
    assert!(has_ascii_graphemes(s));
}
