// Contracts for matcher/src/fuzzy_greedy.rs (C01 decision, C02 witness, C03 score).  Bounded.
// Injected as `fuzzy_greedy::verif_greedy`.
use crate::chars::AsciiChar;
use crate::verif_spec::*;
use crate::Config;

struct In<const H: usize, const N: usize> {
    hay: [u8; H],
    needle: [u8; N],
    cfg: Config,
    kind: Bonuses,
}

/// precondition for the ASCII x ASCII instantiation = postcondition of prefilter_ascii
/// (c01-prefilter-ascii-*): [START, H) is the forward-greedy window.
fn inputs<const H: usize, const N: usize, const START: usize, const K: u8>() -> In<H, N> {
    let hay: [u8; H] = kani::any();
    let needle: [u8; N] = kani::any();
    kani::assume(all_ascii(&hay));
    let (cfg, kind) = sym_config(K);
    kani::assume(needle_normalized_ascii(&needle, &cfg));
    kani::assume(greedy_window::<AsciiChar, AsciiChar, N>(ascii(&hay), ascii(&needle), START, H, &cfg).is_some());
    In { hay, needle, cfg, kind }
}

/// always succeeds under the prefilter's postcondition; W; score == scheme(indices)
pub fn greedy_ascii_witness_and_score<const H: usize, const N: usize, const START: usize, const K: u8>() {
    let i = inputs::<H, N, START, K>();
    let mut m = small_matcher(i.cfg.clone(), 8);
    let p0: u32 = kani::any();
    let mut idx = Vec::with_capacity(N + 2);
    idx.push(p0);
    let r = m.fuzzy_match_greedy_::<true, AsciiChar, AsciiChar>(ascii(&i.hay), ascii(&i.needle), START, H, &mut idx);
    assert!(r.is_some(), "the greedy matcher succeeds whenever the prefilter found the needle");
    assert!(idx.len() == 1 + N && idx[0] == p0, "one index per needle character is appended, earlier content untouched");
    let mut got = [0u32; N];
    let mut k = 0;
    while k < N {
        got[k] = idx[1 + k];
        k += 1;
    }
    assert!(spec_witness(ascii(&i.hay), ascii(&i.needle), &i.cfg, &got), "indices are a valid witness");
    assert!(got[0] as usize >= START && (got[N - 1] as usize) < H);
    assert!(r.unwrap() as u32 == spec_score(ascii(&i.hay), &i.cfg, i.kind, &got), "score == fzf scheme on the reported alignment");
    kani::cover!(H - START == N || got[0] as usize > START);
    std::mem::forget(m);
}

pub fn greedy_ascii_agree<const H: usize, const N: usize, const START: usize, const K: u8>() {
    let i = inputs::<H, N, START, K>();
    let mut m = small_matcher(i.cfg.clone(), 8);
    let mut idx = Vec::with_capacity(N + 2);
    let r = m.fuzzy_match_greedy_::<true, AsciiChar, AsciiChar>(ascii(&i.hay), ascii(&i.needle), START, H, &mut idx);
    let r2 = m.fuzzy_match_greedy_::<false, AsciiChar, AsciiChar>(ascii(&i.hay), ascii(&i.needle), START, H, &mut Vec::new());
    assert!(r == r2, "score-only and indices variants agree");
    kani::cover!(true);
    std::mem::forget(m);
}

/// canary: must FAIL
pub fn greedy_canary() {
    let i = inputs::<4, 2, 0, 0>();
    let mut m = small_matcher(i.cfg.clone(), 8);
    let r = m.fuzzy_match_greedy_::<false, AsciiChar, AsciiChar>(ascii(&i.hay), ascii(&i.needle), 0, 4, &mut Vec::new());
    std::mem::forget(m);
    assert!(r.unwrap() < 40);
}
