// Contracts for matcher/src/chars.rs, chars/normalize.rs, chars/case_fold.rs  (property C16)
//
// Injected as `mod verif_chars` at the end of matcher/src/chars.rs (a child module sees the
// parent's private items).  Every harness quantifies over the WHOLE `char` domain (or the whole
// 7-bit domain for AsciiChar) and contains no loop that depends on a symbolic bound other than
// the table binary searches, which are fully unwound (unwinding assertions on): complete proofs.
use super::*;
use crate::Config;

include!("@GENERATED@/oracle_unicode.rs");

/// specification-side lookup in a sorted oracle table (none => identity)
fn oracle(t: &[(u32, u32)], c: u32) -> u32 {
    let mut lo = 0usize;
    let mut hi = t.len();
    while lo < hi {
        let mid = lo + (hi - lo) / 2;
        let k = t[mid].0;
        if k == c {
            return t[mid].1;
        } else if k < c {
            lo = mid + 1;
        } else {
            hi = mid;
        }
    }
    c
}

fn in_documented_block(c: u32) -> bool {
    let mut i = 0;
    while i < NORM_BLOCKS.len() {
        if NORM_BLOCKS[i].0 <= c && c <= NORM_BLOCKS[i].1 {
            return true;
        }
        i += 1;
    }
    false
}

fn any_char_in(lo: u32, hi: u32) -> char {
    let c: char = kani::any();
    kani::assume(lo <= c as u32 && c as u32 <= hi);
    c
}

fn cfg(ignore_case: bool, normalize: bool) -> Config {
    let mut c = if kani::any() { Config::DEFAULT } else { Config::DEFAULT.match_paths() };
    c.ignore_case = ignore_case;
    c.normalize = normalize;
    c.prefer_prefix = kani::any();
    c
}

// ---------------------------------------------------------------------------------------------
// K-fold: to_lower_case == Unicode simple case folding (oracle), is_upper_case <=> folds
// ---------------------------------------------------------------------------------------------
fn fold_oracle_on(lo: u32, hi: u32) {
    let c = any_char_in(lo, hi);
    let e = oracle(&FOLD_ORACLE, c as u32);
    let r = to_lower_case(c);
    assert!(r as u32 == e, "to_lower_case(c) is the Unicode simple case folding of c");
    assert!(is_upper_case(c) == (e != c as u32), "is_upper_case(c) <=> simple case folding changes c");
    kani::cover!(r != c);
}
macro_rules! fold_oracle_range {
    ($name:ident, $lo:expr, $hi:expr) => {
        #[kani::proof]
        #[kani::unwind(13)]
        fn $name() {
            fold_oracle_on($lo, $hi);
        }
    };
}
// the two ranges partition 0..=0x10FFFF
fold_oracle_range!(c16_fold_oracle_r0, 0x0, 0x1DFF);
fold_oracle_range!(c16_fold_oracle_r1, 0x1E00, 0x10FFFF);

// idempotence of case folding, ASCII other than A-Z untouched
fn fold_idem_on(lo: u32, hi: u32) {
    let c = any_char_in(lo, hi);
    let r = to_lower_case(c);
    assert!(to_lower_case(r) == r, "case folding is idempotent");
    if (c as u32) < 128 {
        if c >= 'A' && c <= 'Z' {
            assert!(r as u32 == c as u32 + 32);
        } else {
            assert!(r == c, "ASCII other than A-Z is untouched by case folding");
        }
    }
    kani::cover!(r != c);
}
#[kani::proof]
#[kani::unwind(13)]
fn c16_fold_idem() {
    fold_idem_on(0, 0x10FFFF);
}

// ---------------------------------------------------------------------------------------------
// K-norm: Latin normalisation
// ---------------------------------------------------------------------------------------------
#[kani::proof]
#[kani::unwind(12)]
fn c16_norm_contract() {
    let c: char = kani::any();
    let r = normalize::normalize(c);
    // changes only characters inside the documented blocks
    if !in_documented_block(c as u32) {
        assert!(r == c, "normalize changes only characters inside its documented blocks");
    }
    // a character whose compatibility decomposition is an ASCII letter/digit followed only by
    // combining marks is mapped to exactly that letter/digit
    let e = oracle(&NORM_ORACLE, c as u32);
    if e != c as u32 {
        assert!(r as u32 == e, "normalize(c) is the ASCII base letter/digit of NFKD(c)");
    }
    // idempotent, ASCII untouched
    assert!(normalize::normalize(r) == r, "normalize is idempotent");
    if (c as u32) < 128 {
        assert!(r == c, "ASCII is untouched by normalize");
    }
    kani::cover!(e != c as u32);
}

// ---------------------------------------------------------------------------------------------
// K-agree: every place that normalises a haystack character sees the same result
// ---------------------------------------------------------------------------------------------

/// trivial contract of `char_class_non_ascii`: returns *some* class.  Used as a stub so that the
/// agreement below is proved for every class the real function could return.  The class is chosen
/// by the harness (through this static) so that a concrete playback, which runs the REAL class
/// function, consumes the same sequence of nondeterministic values.
static mut STUB_CLASS: u8 = 0;
fn any_class(_c: char) -> CharClass {
    match unsafe { STUB_CLASS } % 7 {
        0 => CharClass::Whitespace,
        1 => CharClass::NonWord,
        2 => CharClass::Delimiter,
        3 => CharClass::Lower,
        4 => CharClass::Upper,
        5 => CharClass::Letter,
        _ => CharClass::Number,
    }
}

fn agree_on(lo: u32, hi: u32) {
    let c = any_char_in(lo, hi);
    let ic: bool = kani::any();
    let nz: bool = kani::any();
    let cf = cfg(ic, nz);
    unsafe { STUB_CLASS = kani::any() };
    let (n1, _class) = <char as Char>::char_class_and_normalize(c, &cf);
    let n2 = <char as Char>::normalize(c, &cf);
    assert!(n1 == n2, "char_class_and_normalize(c).0 == normalize(c) for the same configuration");
    // and both equal the composition the property names: normalize first, then fold
    let mut e = c;
    if nz {
        e = normalize::normalize(e);
    }
    if ic {
        e = to_lower_case(e);
    }
    assert!(n2 == e);
    kani::cover!(n1 != c);
}
macro_rules! agree_range {
    ($name:ident, $lo:expr, $hi:expr) => {
        #[kani::proof]
        #[kani::unwind(13)]
        #[kani::stub(char_class_non_ascii, any_class)]
        fn $name() {
            agree_on($lo, $hi);
        }
    };
}
agree_range!(c16_agree_anyclass_r0, 0x0, 0x1DFF);
agree_range!(c16_agree_anyclass_r1, 0x1E00, 0x10FFFF);

/// AsciiChar: the two normalising entry points agree, and `char` restricted to ASCII agrees with
/// `AsciiChar` (so the ASCII and the code-point representation see the same character).
#[kani::proof]
#[kani::unwind(13)]
#[kani::stub(char_class_non_ascii, any_class)] // unreachable for ASCII input; stubbed only to keep std's table search out of the query
fn c16_agree_ascii() {
    let b: u8 = kani::any();
    kani::assume(b < 128);
    let ic: bool = kani::any();
    let nz: bool = kani::any();
    let cf = cfg(ic, nz);
    let (a1, cls1) = AsciiChar(b).char_class_and_normalize(&cf);
    let a2 = AsciiChar(b).normalize(&cf);
    assert!(a1 == a2);
    assert!(cls1 == AsciiChar(b).char_class(&cf));
    let expect = if ic && b >= b'A' && b <= b'Z' { b + 32 } else { b };
    assert!(a2.0 == expect, "ASCII: only A-Z change, and only under ignore_case");
    let (c1, cls2) = <char as Char>::char_class_and_normalize(b as char, &cf);
    let c2 = <char as Char>::normalize(b as char, &cf);
    assert!(c1 as u32 == a1.0 as u32 && c2 as u32 == a1.0 as u32, "char on ASCII input == AsciiChar");
    assert!(cls1 == cls2 && cls2 == <char as Char>::char_class(b as char, &cf));
    kani::cover!(a2.0 != b);
}

/// canary: must FAIL (a reachable false claim) -- guards against a vacuous run
#[kani::proof]
#[kani::unwind(13)]
fn c16_canary() {
    let c: char = kani::any();
    assert!(to_lower_case(c) == c || (c as u32) < 128);
}
