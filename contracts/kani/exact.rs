// Contracts for matcher/src/exact.rs (C05 substring relation, C02 witness, C03 score, C04 one-char optimum).
// Injected as `exact::verif_exact`.  All obligations here are bounded stand-ins over strings:
// shape parameters H (haystack length), N (needle length), K (base configuration) are const
// generics instantiated from contracts/catalogue.py; all bytes, ignore_case, normalize symbolic.
use super::*;
use crate::chars::Char;
use crate::verif_spec::*;
use crate::Config;

struct In<const H: usize, const N: usize> {
    hay: [u8; H],
    needle: [u8; N],
    cfg: Config,
    kind: Bonuses,
}

fn inputs<const H: usize, const N: usize, const K: u8>() -> In<H, N> {
    let hay: [u8; H] = kani::any();
    let needle: [u8; N] = kani::any();
    kani::assume(all_ascii(&hay));
    let (cfg, kind) = sym_config(K);
    kani::assume(needle_normalized_ascii(&needle, &cfg));
    In { hay, needle, cfg, kind }
}

// ----------------------------------------------------------------------------------------------
// one-character needle, ASCII
// ----------------------------------------------------------------------------------------------

/// decision + position + score + witness of substring_match_1_ascii
pub fn sub1_ascii<const H: usize, const K: u8>() {
    let i = inputs::<H, 1, K>();
    let mut m = small_matcher(i.cfg.clone(), 8);
    let p0: u32 = kani::any();
    let mut idx = Vec::with_capacity(4);
    idx.push(p0);
    let r = m.substring_match_1_ascii::<true>(&i.hay, i.needle[0], &mut idx);
    let h = ascii(&i.hay);
    let n = ascii(&i.needle);
    let best = spec_best_occurrence(h, n, &i.cfg, i.kind);
    assert!(r.is_some() == best.is_some(), "matches exactly when the character occurs in the normalised haystack");
    assert!(idx[0] == p0, "earlier content of the indices vector is untouched");
    match r {
        None => assert!(idx.len() == 1, "a failed match appends nothing"),
        Some(s) => {
            assert!(idx.len() == 2, "exactly one index is appended");
            let got = [idx[1]];
            assert!(Some(got[0] as usize) == best, "reports the leftmost occurrence with the highest bonus (the true optimum for a one-character needle)");
            assert!(s as u32 == spec_score(h, &i.cfg, i.kind, &got), "score == 16 + 2*bonus");
        }
    }
    kani::cover!(r.is_some());
    std::mem::forget(m);
}

pub fn sub1_ascii_agree<const H: usize, const K: u8>() {
    let i = inputs::<H, 1, K>();
    let mut m = small_matcher(i.cfg.clone(), 8);
    let mut idx = Vec::with_capacity(4);
    let r = m.substring_match_1_ascii::<true>(&i.hay, i.needle[0], &mut idx);
    let r2 = m.substring_match_1_ascii::<false>(&i.hay, i.needle[0], &mut Vec::new());
    assert!(r == r2, "score-only and indices variants agree");
    kani::cover!(r.is_some());
    std::mem::forget(m);
}

// ----------------------------------------------------------------------------------------------
// multi-character needle, ASCII      (call-site precondition: 2 <= N < H)
//
// ARM partitions the inputs by the code path they take (the four cases together cover every
// (needle, ignore_case)); one obligation per case keeps each query small:
//   0: ignore_case off                       1: ignore_case on, needle[0] is a letter
//   2: ignore_case on, needle[0] is not a letter, needle[1] is
//   3: ignore_case on, neither needle[0] nor needle[1] is a letter
// ----------------------------------------------------------------------------------------------
fn is_lower(b: u8) -> bool {
    b >= b'a' && b <= b'z'
}

fn arm_inputs<const H: usize, const N: usize, const K: u8, const ARM: u8>() -> In<H, N> {
    let hay: [u8; H] = kani::any();
    let needle: [u8; N] = kani::any();
    kani::assume(all_ascii(&hay));
    let (mut cfg, kind) = base_config(K);
    cfg.normalize = kani::any();
    cfg.ignore_case = ARM != 0;
    kani::assume(needle_normalized_ascii(&needle, &cfg));
    match ARM {
        0 => {}
        1 => kani::assume(is_lower(needle[0])),
        2 => kani::assume(!is_lower(needle[0]) && is_lower(needle[1])),
        _ => kani::assume(!is_lower(needle[0]) && !is_lower(needle[1])),
    }
    In { hay, needle, cfg, kind }
}

/// decision: Some <=> the needle occurs contiguously in the normalised haystack
pub fn sub_ascii_decision<const H: usize, const N: usize, const K: u8, const ARM: u8>() {
    let i = arm_inputs::<H, N, K, ARM>();
    let mut m = small_matcher(i.cfg.clone(), 8);
    let r = m.substring_match_ascii::<false>(&i.hay, &i.needle, &mut Vec::new());
    let best = spec_best_occurrence(ascii(&i.hay), ascii(&i.needle), &i.cfg, i.kind);
    assert!(r.is_some() == best.is_some(), "substring matching succeeds exactly when the needle occurs contiguously in the normalised haystack");
    kani::cover!(r.is_some());
    std::mem::forget(m);
}

/// position, witness, score
pub fn sub_ascii_witness<const H: usize, const N: usize, const K: u8, const ARM: u8>() {
    let i = arm_inputs::<H, N, K, ARM>();
    let mut m = small_matcher(i.cfg.clone(), 8);
    let p0: u32 = kani::any();
    let mut idx = Vec::with_capacity(N + 2);
    idx.push(p0);
    let r = m.substring_match_ascii::<true>(&i.hay, &i.needle, &mut idx);
    let h = ascii(&i.hay);
    let n = ascii(&i.needle);
    assert!(idx[0] == p0, "earlier content of the indices vector is untouched");
    match r {
        None => assert!(idx.len() == 1, "a failed match appends nothing"),
        Some(s) => {
            assert!(idx.len() == 1 + N, "exactly one index per needle character is appended");
            let mut got = [0u32; N];
            let mut k = 0;
            while k < N {
                got[k] = idx[1 + k];
                k += 1;
            }
            assert!(spec_witness(h, n, &i.cfg, &got), "indices are a valid witness");
            assert!(contiguous(&got), "substring indices are contiguous");
            let best = spec_best_occurrence(h, n, &i.cfg, i.kind);
            assert!(Some(got[0] as usize) == best, "reports the leftmost occurrence whose first character earns the highest bonus");
            assert!(s as u32 == spec_score(h, &i.cfg, i.kind, &got), "score == fzf scheme on the reported alignment");
        }
    }
    kani::cover!(r.is_some());
    std::mem::forget(m);
}

pub fn sub_ascii_agree<const H: usize, const N: usize, const K: u8, const ARM: u8>() {
    let i = arm_inputs::<H, N, K, ARM>();
    let mut m = small_matcher(i.cfg.clone(), 8);
    let mut idx = Vec::with_capacity(N + 2);
    let r = m.substring_match_ascii::<true>(&i.hay, &i.needle, &mut idx);
    let r2 = m.substring_match_ascii::<false>(&i.hay, &i.needle, &mut Vec::new());
    assert!(r == r2, "score-only and indices variants agree");
    kani::cover!(r.is_some());
    std::mem::forget(m);
}

/// canary: must FAIL
pub fn exact_canary() {
    let i = inputs::<3, 1, 0>();
    let mut m = small_matcher(i.cfg.clone(), 8);
    let r = m.substring_match_1_ascii::<false>(&i.hay, i.needle[0], &mut Vec::new());
    std::mem::forget(m);
    assert!(r.is_none());
}

// ----------------------------------------------------------------------------------------------
// concrete-needle variants (cheap: every needle-dependent branch is decided during symbolic
// execution; the haystack stays fully symbolic).  They complement the partitioned obligations
// above, whose letter-free-prefix cases take 5-10 minutes each.
// ----------------------------------------------------------------------------------------------
fn concrete_needle(id: u8) -> (&'static [u8], bool) {
    match id {
        0 => (b"--a", true),  // first letter at index 2 (the `Some(len)` arm), ignore_case
        1 => (b"a-a", false), // self-overlapping needle, case sensitive (literal search path)
        2 => (b"-a", true),   // first letter at index 1
        3 => (b"ab", true),   // starts with a letter
        _ => (b"--", true),   // no letter at all
    }
}

pub fn sub_ascii_concrete_needle<const H: usize, const ID: u8, const K: u8>() {
    let hay: [u8; H] = kani::any();
    kani::assume(all_ascii(&hay));
    let (needle, ic) = concrete_needle(ID);
    let (mut cfg, kind) = base_config(K);
    cfg.ignore_case = ic;
    cfg.normalize = kani::any();
    let mut m = small_matcher(cfg.clone(), 8);
    let p0: u32 = kani::any();
    let mut idx = Vec::with_capacity(8);
    idx.push(p0);
    let r = m.substring_match_ascii::<true>(&hay, needle, &mut idx);
    let h = ascii(&hay);
    let n = ascii(needle);
    let best = spec_best_occurrence(h, n, &cfg, kind);
    assert!(r.is_some() == best.is_some(), "substring matching succeeds exactly when the needle occurs contiguously in the normalised haystack");
    assert!(idx[0] == p0, "earlier content of the indices vector is untouched");
    match r {
        None => assert!(idx.len() == 1, "a failed match appends nothing"),
        Some(s) => {
            assert!(idx.len() == 1 + needle.len(), "exactly one index per needle character is appended");
            assert!(Some(idx[1] as usize) == best, "reports the leftmost occurrence whose first character earns the highest bonus");
            let mut k = 1;
            while k < needle.len() {
                assert!(idx[1 + k] == idx[1] + k as u32, "substring indices are contiguous");
                k += 1;
            }
            assert!(s as u32 == spec_score(h, &cfg, kind, &idx[1..]), "score == fzf scheme on the reported alignment");
        }
    }
    kani::cover!(r.is_some());
    std::mem::forget(m);
}

// ----------------------------------------------------------------------------------------------
// substring_match_ascii_with_prefilter, the callee of the three ignore_case arms, against its own
// contract (no memchr / memmem: the candidate iterator is built from the precondition).
//   requires (from the three call sites): ignore_case; 1 <= PL <= N <= H; the iterator yields, in
//     increasing order, exactly the positions i <= H-N at which the first PL needle characters occur
//     in the folded haystack (Memchr2(c, c-32), Memchr(c) and find_overlapping(prefix) all do)
//   ensures: score 0 <=> no occurrence; otherwise the position is the leftmost occurrence whose
//     first character earns the highest bonus and the score is 16 + 2*bonus of that character
// ----------------------------------------------------------------------------------------------
struct Cands<const H: usize> {
    ok: [bool; H],
    pos: usize,
}

impl<const H: usize> Iterator for Cands<H> {
    type Item = usize;
    fn next(&mut self) -> Option<usize> {
        while self.pos < H {
            let p = self.pos;
            self.pos += 1;
            if self.ok[p] {
                return Some(p);
            }
        }
        None
    }
}

pub fn sub_ascii_with_prefilter<const H: usize, const N: usize, const PL: usize, const K: u8>() {
    let hay: [u8; H] = kani::any();
    let needle: [u8; N] = kani::any();
    kani::assume(all_ascii(&hay));
    let (mut cfg, kind) = base_config(K);
    cfg.ignore_case = true;
    cfg.normalize = kani::any();
    kani::assume(needle_normalized_ascii(&needle, &cfg));
    let mut ok = [false; H];
    let mut i = 0;
    while i + N <= H {
        let mut all = true;
        let mut k = 0;
        while k < PL {
            if AsciiChar(hay[i + k]).normalize(&cfg).0 != needle[k] {
                all = false;
            }
            k += 1;
        }
        ok[i] = all;
        i += 1;
    }
    let mut m = small_matcher(cfg.clone(), 8);
    let (s, p) = m.substring_match_ascii_with_prefilter(&hay, &needle, PL, Cands::<H> { ok, pos: 0 });
    let h = ascii(&hay);
    let n = ascii(&needle);
    let best = spec_best_occurrence(h, n, &cfg, kind);
    assert!((s != 0) == best.is_some(), "a non-zero score is reported exactly when the needle occurs contiguously in the folded haystack");
    if let Some(b) = best {
        assert!(p == b, "reports the leftmost occurrence whose first character earns the highest bonus");
        assert!(s as u32 == spec_score(h, &cfg, kind, &[b as u32]), "score of the first character == 16 + 2*bonus at the reported position");
    }
    kani::cover!(best.is_some() && best != Some(0));
    std::mem::forget(m);
}
