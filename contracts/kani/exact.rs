// Contracts for matcher/src/exact.rs (C05 substring relation, C02 witness, C03 score, C04 one-char optimum).
// Injected as `exact::verif_exact`.  All obligations here are bounded stand-ins over strings.
use super::*;
use crate::chars::{Char, CharClass};
use crate::verif_spec::*;
use crate::Config;

/// leftmost occurrence (start index) whose first character earns the highest bonus
fn spec_best_occurrence<H: Char + PartialEq<N>, N: Char>(
    hay: &[H],
    needle: &[N],
    cfg: &Config,
    kind: Bonuses,
) -> Option<usize> {
    let mut best: Option<(usize, u16)> = None;
    let mut at = 0;
    while at + needle.len() <= hay.len() {
        if spec_occurs_at(hay, needle, at, cfg) {
            let b = spec_bonus_at(hay, at, cfg, kind);
            match best {
                Some((_, bb)) if bb >= b => {}
                _ => best = Some((at, b)),
            }
        }
        at += 1;
    }
    best.map(|x| x.0)
}

// ----------------------------------------------------------------------------------------------
// one-character needle, ASCII
// ----------------------------------------------------------------------------------------------
fn substring_1_ascii_contract<const H: usize>() {
    let hay: [u8; H] = kani::any();
    let c: u8 = kani::any();
    kani::assume(all_ascii(&hay));
    let (cfg, kind) = any_config_no_prefix();
    kani::assume(needle_normalized_ascii(&[c], &cfg));
    let mut m = small_matcher(cfg.clone(), 8);
    let mut idx = prior_indices();
    let old = idx.clone();
    let r = m.substring_match_1_ascii::<true>(&hay, c, &mut idx);
    let r2 = m.substring_match_1_ascii::<false>(&hay, c, &mut Vec::new());
    assert!(r == r2, "score-only and indices variants agree");
    let h = ascii(&hay);
    let needle = [AsciiChar(c)];
    let best = spec_best_occurrence(h, &needle, &cfg, kind);
    assert!(r.is_some() == best.is_some(), "matches exactly when the character occurs in the normalised haystack");
    assert!(prior_untouched(&idx, &old));
    match r {
        None => assert!(idx.len() == old.len(), "a failed match appends nothing"),
        Some(s) => {
            assert!(idx.len() == old.len() + 1);
            let p = idx[old.len()] as usize;
            assert!(Some(p) == best, "reports the leftmost occurrence with the highest bonus (== the true optimum for a 1-char needle)");
            assert!(s as u32 == spec_score(h, &cfg, kind, &idx[old.len()..]), "score == 16 + 2*bonus");
        }
    }
    kani::cover!(r.is_some());
    kani::cover!(r.is_none());
    std::mem::forget(m);
}

#[kani::proof]
#[kani::unwind(8)]
fn c05_substring_1_ascii_5() {
    substring_1_ascii_contract::<5>();
}

#[kani::proof]
#[kani::unwind(9)]
fn c05_substring_1_ascii_7() {
    substring_1_ascii_contract::<7>();
}

// ----------------------------------------------------------------------------------------------
// multi-character needle, ASCII
// ----------------------------------------------------------------------------------------------
fn substring_ascii_contract<const H: usize, const N: usize>() {
    let hay: [u8; H] = kani::any();
    let needle: [u8; N] = kani::any();
    kani::assume(all_ascii(&hay));
    let (cfg, kind) = any_config_no_prefix();
    kani::assume(needle_normalized_ascii(&needle, &cfg));
    let mut m = small_matcher(cfg.clone(), 8);
    let mut idx = prior_indices();
    let old = idx.clone();
    let r = m.substring_match_ascii::<true>(&hay, &needle, &mut idx);
    let h = ascii(&hay);
    let n = ascii(&needle);
    let best = spec_best_occurrence(h, n, &cfg, kind);
    assert!(r.is_some() == best.is_some(), "substring matching succeeds exactly when the needle occurs contiguously in the normalised haystack");
    assert!(prior_untouched(&idx, &old));
    match r {
        None => assert!(idx.len() == old.len(), "a failed match appends nothing"),
        Some(s) => {
            let new = &idx[old.len()..];
            assert!(spec_witness(h, n, &cfg, new), "indices are a valid witness");
            assert!(contiguous(new), "substring indices are contiguous");
            assert!(Some(new[0] as usize) == best, "reports the leftmost occurrence whose first character earns the highest bonus");
            assert!(s as u32 == spec_score(h, &cfg, kind, new), "score == fzf scheme on the reported alignment");
        }
    }
    let r2 = m.substring_match_ascii::<false>(&hay, &needle, &mut Vec::new());
    assert!(r == r2, "score-only and indices variants agree");
    kani::cover!(r.is_some());
    kani::cover!(r.is_none());
    std::mem::forget(m);
}

#[kani::proof]
#[kani::unwind(8)]
fn c05_substring_ascii_5_2() {
    substring_ascii_contract::<5, 2>();
}

#[kani::proof]
#[kani::unwind(8)]
fn c05_substring_ascii_5_3() {
    substring_ascii_contract::<5, 3>();
}

#[kani::proof]
#[kani::unwind(9)]
fn c05_substring_ascii_6_3() {
    substring_ascii_contract::<6, 3>();
}

/// canary: must FAIL
#[kani::proof]
#[kani::unwind(8)]
fn c05_exact_canary() {
    let hay: [u8; 4] = kani::any();
    let needle: [u8; 2] = kani::any();
    kani::assume(all_ascii(&hay) && all_ascii(&needle));
    let mut m = small_matcher(Config::DEFAULT, 8);
    let r = m.substring_match_ascii::<false>(&hay, &needle, &mut Vec::new());
    std::mem::forget(m);
    assert!(r.is_none());
}
