// Contracts for matcher/src/score.rs and the character classes it relies on (C02, C03, C04, C10).
// Injected as `score::verif_score`.
use super::*;
use crate::chars::AsciiChar;
use crate::verif_spec::*;

// ----------------------------------------------------------------------------------------------
// complete obligations: bonus rules and ASCII classes against the literal scheme
// ----------------------------------------------------------------------------------------------

/// K-bonus: every (previous class, class) pair x every way of obtaining bonus settings
#[kani::proof]
fn c03_bonus_rules() {
    let k: u8 = kani::any();
    let (cfg, kind) = base_config(k);
    let prev = class_of(kani::any());
    let cur = class_of(kani::any());
    let r = cfg.bonus_for(prev, cur);
    assert!(r == spec_bonus(prev, cur, kind), "bonus_for == documented bonus rules (10/9/8, 5, 8; path settings 8/9/8)");
    assert!(r <= 10);
    assert!(cfg.initial_char_class == spec_initial_class(kind));
    // the named constants are the documented scheme
    assert!(SCORE_MATCH == 16 && PENALTY_GAP_START == 3 && PENALTY_GAP_EXTENSION == 1);
    assert!(BONUS_BOUNDARY == 8 && BONUS_CAMEL123 == 5 && BONUS_NON_WORD == 8 && BONUS_CONSECUTIVE == 4);
    assert!(BONUS_FIRST_CHAR_MULTIPLIER == 2 && MAX_PREFIX_BONUS == 8);
    match kind {
        Bonuses::Default => assert!(cfg.bonus_boundary_white == 10 && cfg.bonus_boundary_delimiter == 9),
        Bonuses::Paths => assert!(cfg.bonus_boundary_white == 8 && cfg.bonus_boundary_delimiter == 9),
    }
    kani::cover!(r == 5);
}

fn spec_class_ascii(b: u8, k: u8) -> CharClass {
    let delims: &[u8] = match k % 3 {
        0 => b"/,:;|",
        1 => b"/",
        _ => b"/:",
    };
    if b >= b'a' && b <= b'z' {
        CharClass::Lower
    } else if b >= b'A' && b <= b'Z' {
        CharClass::Upper
    } else if b >= b'0' && b <= b'9' {
        CharClass::Number
    } else if b == b' ' || b == b'\t' || b == b'\n' || b == 0x0C || b == b'\r' {
        CharClass::Whitespace
    } else {
        let mut i = 0;
        while i < delims.len() {
            if delims[i] == b {
                return CharClass::Delimiter;
            }
            i += 1;
        }
        CharClass::NonWord
    }
}

/// K-class: all 256 byte values x the three delimiter sets (non-windows)
#[kani::proof]
#[kani::unwind(7)]
fn c03_class_ascii() {
    let k: u8 = kani::any();
    let (cfg, _) = base_config(k);
    let b: u8 = kani::any();
    assert!(AsciiChar(b).char_class(&cfg) == spec_class_ascii(b, k));
    kani::cover!(AsciiChar(b).char_class(&cfg) == CharClass::Delimiter);
}

// ----------------------------------------------------------------------------------------------
// K-score: calculate_score on a forward-greedy window   [bounded]
//
// Shape parameters (const generics, instantiated from contracts/catalogue.py):
//   H = haystack length = end of the window, N = needle length, START = 0 | 1 (window start; 1 puts
//   one symbolic character in front of the window), K = base configuration (0 DEFAULT, 1 match_paths()).
// The haystack/needle bytes, ignore_case and normalize are fully symbolic.
// Each postcondition clause is its own obligation (keeps each SAT query small).
// ----------------------------------------------------------------------------------------------
struct Inputs<const H: usize, const N: usize> {
    hay: [u8; H],
    needle: [u8; N],
    cfg: Config,
    kind: Bonuses,
    pos: [u32; N],
}

fn cs_inputs<const H: usize, const N: usize, const START: usize, const K: u8>() -> Inputs<H, N> {
    let hay: [u8; H] = kani::any();
    let needle: [u8; N] = kani::any();
    kani::assume(all_ascii(&hay));
    let (cfg, kind) = sym_config(K);
    kani::assume(needle_normalized_ascii(&needle, &cfg));
    // precondition of calculate_score (derived from its call sites)
    let pos = greedy_window::<AsciiChar, AsciiChar, N>(ascii(&hay), ascii(&needle), START, H, &cfg);
    kani::assume(pos.is_some());
    Inputs { hay, needle, cfg, kind, pos: pos.unwrap() }
}

/// W + score: the appended indices are a valid witness inside the window, earlier
/// content is untouched, and the score is the fzf scheme evaluated on exactly those indices.
pub fn cs_witness_and_score<const H: usize, const N: usize, const START: usize, const K: u8>() {
    let i = cs_inputs::<H, N, START, K>();
    let mut m = small_matcher(i.cfg.clone(), 8);
    let p0: u32 = kani::any();
    let mut idx = Vec::with_capacity(N + 2);
    idx.push(p0);
    let s = m.calculate_score::<true, AsciiChar, AsciiChar>(ascii(&i.hay), ascii(&i.needle), START, H, &mut idx);
    assert!(idx.len() == 1 + N, "exactly one index per needle character is appended");
    assert!(idx[0] == p0, "earlier content of the indices vector is untouched");
    let mut got = [0u32; N];
    let mut k = 0;
    while k < N {
        got[k] = idx[1 + k];
        k += 1;
    }
    assert!(spec_witness(ascii(&i.hay), ascii(&i.needle), &i.cfg, &got), "indices are a valid witness");
    assert!(got[0] as usize >= START, "the witness lies inside the window");
    assert!(s as u32 == spec_score(ascii(&i.hay), &i.cfg, i.kind, &got), "score == fzf scheme on the reported alignment");
    kani::cover!(true);
    std::mem::forget(m);
}

/// the score-only variant returns the same value as the indices variant
pub fn cs_variants_agree<const H: usize, const N: usize, const START: usize, const K: u8>() {
    let i = cs_inputs::<H, N, START, K>();
    let mut m = small_matcher(i.cfg.clone(), 8);
    let mut idx = Vec::with_capacity(N + 2);
    let s1 = m.calculate_score::<true, AsciiChar, AsciiChar>(ascii(&i.hay), ascii(&i.needle), START, H, &mut idx);
    let s2 = m.calculate_score::<false, AsciiChar, AsciiChar>(ascii(&i.hay), ascii(&i.needle), START, H, &mut Vec::new());
    assert!(s1 == s2, "score-only and indices variants agree");
    kani::cover!(true);
    std::mem::forget(m);
}

/// C04: prefix preference never lowers the score and raises it by at most the prefix bonus (8)
pub fn cs_prefer_prefix<const H: usize, const N: usize, const START: usize, const K: u8>() {
    let i = cs_inputs::<H, N, START, K>();
    let mut m = small_matcher(i.cfg.clone(), 8);
    let s = m.calculate_score::<false, AsciiChar, AsciiChar>(ascii(&i.hay), ascii(&i.needle), START, H, &mut Vec::new());
    m.config.prefer_prefix = true;
    let sp = m.calculate_score::<false, AsciiChar, AsciiChar>(ascii(&i.hay), ascii(&i.needle), START, H, &mut Vec::new());
    assert!(sp >= s && sp <= s + 8, "prefer_prefix raises the score by 0..=8");
    kani::cover!(sp > s);
    std::mem::forget(m);
}

/// canary: must FAIL
pub fn cs_canary() {
    let i = cs_inputs::<4, 2, 0, 0>();
    let mut m = small_matcher(i.cfg.clone(), 8);
    let s = m.calculate_score::<false, AsciiChar, AsciiChar>(ascii(&i.hay), ascii(&i.needle), 0, 4, &mut Vec::new());
    std::mem::forget(m);
    assert!(s < 40);
}

// ----------------------------------------------------------------------------------------------
// C10 [complete over the start position]: the prefix-preference term never overflows, wherever in
// a (long) haystack the match starts.  One-character needle, so the scoring loop is empty and the
// obligation isolates the arithmetic on `start`; the haystack is a prefix of a constant buffer.
// ----------------------------------------------------------------------------------------------
static LONG_HAY: [u8; 24_000] = [b'a'; 24_000];

#[kani::proof]
#[kani::unwind(7)]
fn c10_prefix_term_no_overflow() {
    let start: usize = kani::any();
    kani::assume(start < 24_000);
    let (mut cfg, _) = base_config(kani::any());
    cfg.prefer_prefix = true;
    let mut m = small_matcher(cfg, 8);
    let needle = [AsciiChar(b'a')];
    let s = m.calculate_score::<false, AsciiChar, AsciiChar>(ascii(&LONG_HAY), &needle, start, start + 1, &mut Vec::new());
    assert!(s >= 16 && s <= 16 + 2 * 10 + 8, "score of a one-character match with prefix preference stays in 16..=44");
    kani::cover!(start > 22_000);
    std::mem::forget(m);
}

// ----------------------------------------------------------------------------------------------
// C03 "the value never wraps around for long needles" on the calculate_score path (no needle-length
// guard there, unlike the matrix path).  The Verus row bound says a score can reach
// 36 + 26 (n-1), which exceeds u16::MAX from n = 2521 on; this obligation runs the real function
// on that witness family (haystack == needle == 'a' x n): the result must not be smaller than the
// unwrapped value capped at u16::MAX, and no arithmetic overflow may occur.  [bounded: two lengths]
// ----------------------------------------------------------------------------------------------
pub fn cs_long_needle_no_wrap<const N: usize>() {
    let (cfg, _) = base_config(0);
    let mut m = small_matcher(cfg, 8);
    let hay = ascii(&LONG_HAY[..N]);
    let s = m.calculate_score::<false, AsciiChar, AsciiChar>(hay, hay, 0, N, &mut Vec::new());
    let unwrapped: u32 = 16 + 2 * 10 + 26 * (N as u32 - 1);
    let capped = if unwrapped > u16::MAX as u32 { u16::MAX as u32 } else { unwrapped };
    assert!(s as u32 == capped, "score of n consecutive matches is 36 + 26 (n-1), capped at u16::MAX, never wrapped");
    kani::cover!(true);
    std::mem::forget(m);
}
