// Contracts for matcher/src/score.rs and the character classes it relies on (C02, C03, C04, C10).
// Injected as `score::verif_score`.
use super::*;
use crate::chars::AsciiChar;
use crate::verif_spec::*;

// ----------------------------------------------------------------------------------------------
// complete obligations: bonus rules and ASCII classes against the literal scheme
// ----------------------------------------------------------------------------------------------

/// K-bonus: every (previous class, class) pair x every way of obtaining bonus settings
#[kani::proof]
fn c03_bonus_rules() {
    let k: u8 = kani::any();
    let (cfg, kind) = base_config(k);
    let prev = class_of(kani::any());
    let cur = class_of(kani::any());
    let r = cfg.bonus_for(prev, cur);
    assert!(r == spec_bonus(prev, cur, kind), "bonus_for == documented bonus rules (10/9/8, 5, 8; path settings 8/9/8)");
    assert!(r <= 10);
    assert!(cfg.initial_char_class == spec_initial_class(kind));
    // the named constants are the documented scheme
    assert!(SCORE_MATCH == 16 && PENALTY_GAP_START == 3 && PENALTY_GAP_EXTENSION == 1);
    assert!(BONUS_BOUNDARY == 8 && BONUS_CAMEL123 == 5 && BONUS_NON_WORD == 8 && BONUS_CONSECUTIVE == 4);
    assert!(BONUS_FIRST_CHAR_MULTIPLIER == 2 && MAX_PREFIX_BONUS == 8);
    match kind {
        Bonuses::Default => assert!(cfg.bonus_boundary_white == 10 && cfg.bonus_boundary_delimiter == 9),
        Bonuses::Paths => assert!(cfg.bonus_boundary_white == 8 && cfg.bonus_boundary_delimiter == 9),
    }
    kani::cover!(r == 5);
}

fn spec_class_ascii(b: u8, k: u8) -> CharClass {
    let delims: &[u8] = match k % 3 {
        0 => b"/,:;|",
        1 => b"/",
        _ => b"/:",
    };
    if b >= b'a' && b <= b'z' {
        CharClass::Lower
    } else if b >= b'A' && b <= b'Z' {
        CharClass::Upper
    } else if b >= b'0' && b <= b'9' {
        CharClass::Number
    } else if b == b' ' || b == b'\t' || b == b'\n' || b == 0x0C || b == b'\r' {
        CharClass::Whitespace
    } else {
        let mut i = 0;
        while i < delims.len() {
            if delims[i] == b {
                return CharClass::Delimiter;
            }
            i += 1;
        }
        CharClass::NonWord
    }
}

/// K-class: all 256 byte values x the three delimiter sets (non-windows)
#[kani::proof]
#[kani::unwind(7)]
fn c03_class_ascii() {
    let k: u8 = kani::any();
    let (cfg, _) = base_config(k);
    let b: u8 = kani::any();
    assert!(AsciiChar(b).char_class(&cfg) == spec_class_ascii(b, k));
    kani::cover!(AsciiChar(b).char_class(&cfg) == CharClass::Delimiter);
}

// ----------------------------------------------------------------------------------------------
// K-score: calculate_score on a forward-greedy window   [bounded]
// ----------------------------------------------------------------------------------------------

fn score_contract_ascii<const H: usize, const N: usize>() {
    let hay: [u8; H] = kani::any();
    let needle: [u8; N] = kani::any();
    kani::assume(all_ascii(&hay));
    let (cfg, kind) = any_config_no_prefix();
    kani::assume(needle_normalized_ascii(&needle, &cfg));
    let start: usize = kani::any();
    let end: usize = kani::any();
    kani::assume(start < H && end <= H);
    let pos = greedy_window::<AsciiChar, AsciiChar, N>(ascii(&hay), ascii(&needle), start, end, &cfg);
    kani::assume(pos.is_some());
    let pos = pos.unwrap();
    let mut m = small_matcher(cfg.clone(), 8);
    let mut idx = prior_indices();
    let old = idx.clone();
    let s = m.calculate_score::<true, AsciiChar, AsciiChar>(ascii(&hay), ascii(&needle), start, end, &mut idx);
    // witness W
    assert!(idx.len() == old.len() + N, "exactly one index per needle character is appended");
    let mut k = 0;
    while k < old.len() {
        assert!(idx[k] == old[k], "earlier content of the indices vector is untouched");
        k += 1;
    }
    let new = &idx[old.len()..];
    assert!(spec_witness(ascii(&hay), ascii(&needle), &cfg, new), "indices are a valid witness");
    let mut k = 0;
    while k < N {
        assert!(new[k] == pos[k], "indices are the forward-greedy positions of the window");
        k += 1;
    }
    // fzf scheme on the reported alignment
    assert!(s as u32 == spec_score(ascii(&hay), &cfg, kind, new), "score == fzf scheme on the reported alignment");
    // the score-only variant returns the same value
    let s2 = m.calculate_score::<false, AsciiChar, AsciiChar>(ascii(&hay), ascii(&needle), start, end, &mut Vec::new());
    assert!(s == s2, "score-only and indices variants agree");
    // prefix preference never lowers the score and adds at most the prefix bonus (C04)
    m.config.prefer_prefix = true;
    let s3 = m.calculate_score::<false, AsciiChar, AsciiChar>(ascii(&hay), ascii(&needle), start, end, &mut Vec::new());
    assert!(s3 >= s && s3 <= s + 8, "prefer_prefix raises the score by 0..=8");
    if start == 0 {
        assert!(s3 == s + 8);
    }
    kani::cover!(new[N - 1] as usize > start + N - 1); // a gap occurred
    std::mem::forget(m);
}

#[kani::proof]
#[kani::unwind(8)]
fn c03_calculate_score_ascii_6_3() {
    score_contract_ascii::<6, 3>();
}

#[kani::proof]
#[kani::unwind(8)]
fn c03_calculate_score_ascii_5_2() {
    score_contract_ascii::<5, 2>();
}

#[kani::proof]
#[kani::unwind(9)]
fn c03_calculate_score_ascii_7_3() {
    score_contract_ascii::<7, 3>();
}

/// canary: must FAIL
#[kani::proof]
#[kani::unwind(7)]
fn c03_score_canary() {
    let hay: [u8; 4] = kani::any();
    let needle: [u8; 2] = kani::any();
    kani::assume(all_ascii(&hay));
    let (cfg, _) = any_config_no_prefix();
    kani::assume(needle_normalized_ascii(&needle, &cfg));
    let pos = greedy_window::<AsciiChar, AsciiChar, 2>(ascii(&hay), ascii(&needle), 0, 4, &cfg);
    kani::assume(pos.is_some());
    let mut m = small_matcher(cfg.clone(), 8);
    let s = m.calculate_score::<false, AsciiChar, AsciiChar>(ascii(&hay), ascii(&needle), 0, 4, &mut Vec::new());
    std::mem::forget(m);
    assert!(s < 40);
}
