// Contracts for matcher/src/pattern.rs: composition of atoms (C15) and the marker grammar of
// Atom::parse / pattern_atoms (C14, partial).  Bounded.  Injected as `pattern::verif_pattern`.
use super::*;
use crate::verif_spec::*;
use crate::{Config, Matcher, Utf32Str};

// ----------------------------------------------------------------------------------------------
// C15: a pattern is the conjunction of its atoms, negation inverts, scores add up
// ----------------------------------------------------------------------------------------------
fn kind_of(k: u8) -> AtomKind {
    match k {
        0 => AtomKind::Fuzzy,
        1 => AtomKind::Substring,
        2 => AtomKind::Prefix,
        3 => AtomKind::Postfix,
        _ => AtomKind::Exact,
    }
}

/// an atom with a one- or two-byte ASCII needle (symbolic bytes, already lower case), symbolic
/// case/normalisation flags, given kind and polarity; built field by field (parsing is C14's subject)
fn any_atom<const N: usize>(kind: u8, negative: bool) -> Atom {
    let bytes: [u8; N] = kani::any();
    let mut k = 0;
    while k < N {
        kani::assume(bytes[k] >= b'a' && bytes[k] <= b'c' || bytes[k] == b' ');
        k += 1;
    }
    // the bytes are ASCII by the assumption above: skip std's UTF-8 validation of symbolic bytes
    let s = unsafe { String::from_utf8_unchecked(bytes.to_vec()) };
    Atom {
        negative,
        kind: kind_of(kind),
        needle: Utf32String::Ascii(s.into_boxed_str()),
        ignore_case: kani::any(),
        normalize: kani::any(),
    }
}

/// reference semantics of ONE atom, on a matcher of its own (so that any dependence on what an
/// earlier atom left in the shared matcher shows up as a difference)
fn spec_atom(a: &Atom, hay: &[u8], base: &Config, idx: Option<&mut Vec<u32>>) -> Option<u16> {
    let mut cfg = base.clone();
    cfg.ignore_case = a.ignore_case;
    cfg.normalize = a.normalize;
    let mut m = small_matcher(cfg, crate::fuzzy_optimal::verif_optimal::SLAB);
    let h = Utf32Str::Ascii(hay);
    let n = a.needle.slice(..);
    let mut scratch = Vec::new();
    let want_idx = idx.is_some() && !a.negative;
    let out: &mut Vec<u32> = match idx {
        Some(v) if want_idx => v,
        _ => &mut scratch,
    };
    let r = match (a.kind, want_idx) {
        (AtomKind::Fuzzy, false) => m.fuzzy_match(h, n),
        (AtomKind::Fuzzy, true) => m.fuzzy_indices(h, n, out),
        (AtomKind::Substring, false) => m.substring_match(h, n),
        (AtomKind::Substring, true) => m.substring_indices(h, n, out),
        (AtomKind::Prefix, false) => m.prefix_match(h, n),
        (AtomKind::Prefix, true) => m.prefix_indices(h, n, out),
        (AtomKind::Postfix, false) => m.postfix_match(h, n),
        (AtomKind::Postfix, true) => m.postfix_indices(h, n, out),
        (AtomKind::Exact, false) => m.exact_match(h, n),
        (AtomKind::Exact, true) => m.exact_indices(h, n, out),
    };
    std::mem::forget(m);
    if a.negative {
        if r.is_some() {
            None
        } else {
            Some(0)
        }
    } else {
        r
    }
}

fn two_atom_inputs<const H: usize, const K1: u8, const NEG1: bool, const K2: u8, const NEG2: bool>() -> ([u8; H], Atom, Atom, Config) {
    let hay: [u8; H] = kani::any();
    let mut k = 0;
    while k < H {
        kani::assume(hay[k] >= b'a' && hay[k] <= b'c' || hay[k] == b' ' || hay[k] == b'A');
        k += 1;
    }
    let a1 = any_atom::<1>(K1, NEG1);
    let a2 = any_atom::<2>(K2, NEG2);
    let (base, _) = base_config(0);
    (hay, a1, a2, base)
}

/// two-atom pattern, score: matches iff every positive atom matches and no negated atom's inner
/// match succeeds; score = sum of the positive atoms' scores
pub fn pattern_score_two_atoms<const H: usize, const K1: u8, const NEG1: bool, const K2: u8, const NEG2: bool>() {
    let (hay, a1, a2, base) = two_atom_inputs::<H, K1, NEG1, K2, NEG2>();
    let e1 = spec_atom(&a1, &hay, &base, None);
    let e2 = spec_atom(&a2, &hay, &base, None);
    let expect: Option<u32> = match (e1, e2) {
        (Some(x), Some(y)) => Some(x as u32 + y as u32),
        _ => None,
    };
    let pat = Pattern { atoms: vec![a1, a2] };
    let mut m = small_matcher(base.clone(), crate::fuzzy_optimal::verif_optimal::SLAB);
    // the caller's matcher may carry any case/normalisation setting from earlier use
    m.config.ignore_case = kani::any();
    m.config.normalize = kani::any();
    let r = pat.score(Utf32Str::Ascii(&hay), &mut m);
    assert!(r == expect, "pattern score == conjunction of atoms, negated atoms contribute 0, positive scores add up");
    kani::cover!(r.is_some());
    std::mem::forget(m);
}

/// two-atom pattern, indices variant: same decision and score as `Pattern::score`; on success the
/// positive atoms' indices are appended in atom order (each a valid witness of its own needle under
/// its own case/normalisation flags), negated atoms append nothing
pub fn pattern_indices_two_atoms<const H: usize, const K1: u8, const NEG1: bool, const K2: u8, const NEG2: bool>() {
    let (hay, a1, a2, base) = two_atom_inputs::<H, K1, NEG1, K2, NEG2>();
    let pat = Pattern { atoms: vec![a1.clone(), a2.clone()] };
    let mut m = small_matcher(base.clone(), crate::fuzzy_optimal::verif_optimal::SLAB);
    m.config.ignore_case = kani::any();
    m.config.normalize = kani::any();
    let rs = pat.score(Utf32Str::Ascii(&hay), &mut m);
    // whatever the previous call left in the shared matcher must not matter
    let mut idx = Vec::with_capacity(8);
    let ri = pat.indices(Utf32Str::Ascii(&hay), &mut m, &mut idx);
    assert!(ri == rs, "the indices variant returns the same decision and score as the score variant");
    if ri.is_some() {
        let n1 = if NEG1 { 0 } else { 1 };
        let n2 = if NEG2 { 0 } else { 2 };
        assert!(idx.len() == n1 + n2, "each positive atom appends one index per needle character, negated atoms append nothing");
        let h = ascii(&hay);
        if !NEG1 {
            let mut c1 = base.clone();
            c1.ignore_case = a1.ignore_case;
            c1.normalize = a1.normalize;
            let n = match &a1.needle {
                Utf32String::Ascii(x) => x.as_bytes()[0],
                _ => 0,
            };
            assert!((idx[0] as usize) < H && matches(h[idx[0] as usize], crate::chars::AsciiChar(n), &c1), "the first positive atom's indices come first and witness its needle");
        }
        if !NEG2 {
            let mut c2 = base.clone();
            c2.ignore_case = a2.ignore_case;
            c2.normalize = a2.normalize;
            let nb = match &a2.needle {
                Utf32String::Ascii(x) => [x.as_bytes()[0], x.as_bytes()[1]],
                _ => [0, 0],
            };
            let i0 = idx[n1] as usize;
            let i1 = idx[n1 + 1] as usize;
            assert!(i0 < i1 && i1 < H, "the second atom's indices follow, strictly increasing");
            assert!(matches(h[i0], crate::chars::AsciiChar(nb[0]), &c2) && matches(h[i1], crate::chars::AsciiChar(nb[1]), &c2), "and witness its needle");
        }
    }
    kani::cover!(ri.is_some());
    std::mem::forget(m);
}

/// empty pattern matches everything with score zero
pub fn pattern_empty() {
    let hay: [u8; 3] = kani::any();
    kani::assume(all_ascii(&hay));
    let pat = Pattern { atoms: Vec::new() };
    let mut m = small_matcher(Config::DEFAULT, 8);
    assert!(pat.score(Utf32Str::Ascii(&hay), &mut m) == Some(0));
    let mut idx = Vec::new();
    assert!(pat.indices(Utf32Str::Ascii(&hay), &mut m, &mut idx) == Some(0) && idx.is_empty());
    kani::cover!(true);
    std::mem::forget(m);
}

/// canary: must FAIL
pub fn pattern_canary() {
    let hay: [u8; 3] = kani::any();
    kani::assume(all_ascii(&hay));
    let a1 = any_atom::<1>(1, false);
    let pat = Pattern { atoms: vec![a1] };
    let mut m = small_matcher(Config::DEFAULT, 8);
    let r = pat.score(Utf32Str::Ascii(&hay), &mut m);
    std::mem::forget(m);
    assert!(r.is_none());
}

// ----------------------------------------------------------------------------------------------
// C14 (partial): marker grammar of Atom::parse against a recording stub of Atom::new_inner
// ----------------------------------------------------------------------------------------------
static mut REC_LEN: usize = 0;
static mut REC_START: usize = 0;
static mut REC_KIND: u8 = 0;
static mut REC_DOLLAR: bool = false;
static mut REC_ESCAPE_WS: bool = false;
static mut RAW_PTR: usize = 0;

/// contract of `Atom::new_inner` as seen from `Atom::parse`: its argument list
fn recording_new_inner(
    needle: &str,
    _case: CaseMatching,
    _normalization: Normalization,
    kind: AtomKind,
    escape_whitespace: bool,
    append_dollar: bool,
) -> Atom {
    unsafe {
        REC_LEN = needle.len();
        REC_START = needle.as_ptr() as usize - RAW_PTR;
        REC_KIND = match kind {
            AtomKind::Fuzzy => 0,
            AtomKind::Substring => 1,
            AtomKind::Prefix => 2,
            AtomKind::Postfix => 3,
            AtomKind::Exact => 4,
        };
        REC_DOLLAR = append_dollar;
        REC_ESCAPE_WS = escape_whitespace;
    }
    Atom {
        negative: false,
        kind,
        needle: Utf32String::Unicode(Box::new(['x'])),
        ignore_case: false,
        normalize: false,
    }
}

/// reference grammar, from the statement: '!' prefix = negation (unless escaped), '^' / ''' prefix
/// and '$' suffix are kind markers unless backslash-escaped; a negated atom without kind marker is a
/// substring match; `\$` at the end is a literal dollar.  Returns (negative, kind, text start,
/// text length, literal dollar appended).
fn spec_parse(raw: &[u8]) -> (bool, u8, usize, usize, bool) {
    let mut s = 0usize;
    let mut e = raw.len();
    let mut negative = false;
    if e - s >= 1 && raw[s] == b'!' {
        negative = true;
        s += 1;
    } else if e - s >= 2 && raw[s] == b'\\' && raw[s + 1] == b'!' {
        s += 1; // drop the backslash, keep the literal '!'
    }
    let mut kind = 0u8; // fuzzy
    if e - s >= 1 && raw[s] == b'^' {
        kind = 2;
        s += 1;
    } else if e - s >= 1 && raw[s] == b'\'' {
        kind = 1;
        s += 1;
    } else if e - s >= 2 && raw[s] == b'\\' && (raw[s + 1] == b'^' || raw[s + 1] == b'\'') {
        s += 1;
    }
    let mut dollar = false;
    if e - s >= 2 && raw[e - 2] == b'\\' && raw[e - 1] == b'$' {
        dollar = true;
        e -= 2;
    } else if e - s >= 1 && raw[e - 1] == b'$' {
        kind = if kind == 0 { 3 } else { 4 };
        e -= 1;
    }
    if negative && kind == 0 {
        kind = 1;
    }
    (negative, kind, s, e - s, dollar)
}

pub fn parse_markers<const L: usize>() {
    let raw: [u8; L] = kani::any();
    kani::assume(all_ascii(&raw));
    let s = unsafe { std::str::from_utf8_unchecked(&raw) }; // ASCII by assumption
    unsafe { RAW_PTR = raw.as_ptr() as usize };
    let atom = Atom::parse(s, CaseMatching::Smart, Normalization::Smart);
    let (negative, kind, start, len, dollar) = spec_parse(&raw);
    assert!(atom.negative == negative, "'!' negates unless it is backslash-escaped");
    unsafe {
        assert!(REC_KIND == kind, "'^', ''' and '$' select the match kind unless backslash-escaped; a negated plain atom is a substring match");
        assert!(REC_START == start && REC_LEN == len, "exactly the markers (and the escaping backslash of an escaped marker) are removed from the text");
        assert!(REC_DOLLAR == dollar, "an escaped trailing '$' is kept as a literal dollar");
        assert!(REC_ESCAPE_WS, "escaped whitespace is resolved when parsing");
    }
    kani::cover!(L < 3 || (negative && kind == 4));
    std::mem::forget(atom);
}

/// pattern_atoms splits exactly at whitespace that is not preceded by a backslash
pub fn split_atoms<const L: usize>() {
    let raw: [u8; L] = kani::any();
    kani::assume(all_ascii(&raw));
    let s = unsafe { std::str::from_utf8_unchecked(&raw) }; // ASCII by assumption
    // reference: positions of separators
    let mut is_sep = [false; L];
    let mut saw_backslash = false;
    let mut k = 0;
    let mut nsep = 0usize;
    while k < L {
        let c = raw[k];
        let ws = c == b' ' || (c >= 9 && c <= 13);
        if ws && !saw_backslash {
            is_sep[k] = true;
            nsep += 1;
            saw_backslash = false;
        } else {
            saw_backslash = c == b'\\';
        }
        k += 1;
    }
    let mut pieces = 0usize;
    let mut total = 0usize;
    let mut pos = 0usize; // start of the current piece in raw
    for piece in pattern_atoms(s) {
        let off = piece.as_ptr() as usize - raw.as_ptr() as usize;
        assert!(off == pos, "pieces are consecutive slices of the input");
        let end = off + piece.len();
        // no separator inside a piece, and the piece ends at a separator or at the end of the input
        let mut j = off;
        while j < end {
            assert!(!is_sep[j], "a piece contains no unescaped whitespace");
            j += 1;
        }
        assert!(end == L || is_sep[end], "a piece ends only at unescaped whitespace or at the end");
        pos = end + 1;
        pieces += 1;
        total += piece.len();
    }
    assert!(pieces == nsep + 1 && total + nsep == L, "the pattern is split at every unescaped whitespace and nowhere else");
    kani::cover!(nsep == 1);
}

// ----------------------------------------------------------------------------------------------
// C14: Atom::new_inner on text with non-ASCII characters (the code-point branch): escape
// resolution, smart case, smart normalisation, stored needle.  Runs in the crate's
// unicode-segmentation-off configuration (graphemes() == str::chars()), characters from the model
// domain of charmodel.rs, character-level functions replaced by the model table.
// ----------------------------------------------------------------------------------------------
use crate::chars::verif_charmodel::{any_char, model_fold, model_is_upper, model_normalize};

pub fn new_inner_unicode<const LEAD: u8, const TAIL: u8, const CASE: u8, const NORM: bool, const ESC: bool>() {
    // three characters: one symbolic two-byte character of the model domain whose UTF-8 lead byte
    // is LEAD (0xC3: ä Ä ß é É à, 0xCF: ς σ, 0xC5: ſ, 0xC2: µ, 0xCE: Σ) followed by two ASCII
    // characters (see TAIL).  The UTF-8 bytes are laid out directly, and the lead byte is concrete and
    // first, so that `needle.is_ascii()` is decided during symbolic execution and the ASCII branch
    // of new_inner (str::split_once machinery) stays out of the query.
    const L: usize = 3;
    // the two ASCII characters are one of six concrete escape shapes: a symbolic pair makes the
    // needle's length symbolic and Vec::into_boxed_slice (realloc of symbolic size) exhausts memory
    let (a0, a1): (u8, u8) = match TAIL {
        0 => (b'\\', b' '),  // escaped space
        1 => (b'\\', b'x'),  // backslash that escapes nothing
        2 => (b'x', b'\\'),  // trailing backslash
        3 => (b'x', b'y'),    // no escape at all
        4 => (b' ', b'\\'),  // plain space, then trailing backslash
        5 => (b'X', b'y'),    // an upper-case ASCII letter (smart case)
        _ => (b'\\', b'X'),  // an upper-case letter right after a backslash that escapes nothing
    };
    let pick: u8 = kani::any();
    let (second, wide) = match LEAD {
        0xC3 => match pick % 6 {
            0 => (0xA4u8, 'ä'),
            1 => (0x84, 'Ä'),
            2 => (0x9F, 'ß'),
            3 => (0xA9, 'é'),
            4 => (0x89, 'É'),
            _ => (0xA0, 'à'),
        },
        0xCF => {
            if pick % 2 == 0 {
                (0x82, 'ς')
            } else {
                (0x83, 'σ')
            }
        }
        0xC5 => (0xBF, 'ſ'),
        0xC2 => (0xB5, 'µ'),
        _ => (0xA3, 'Σ'),
    };
    let bytes: [u8; 4] = [LEAD, second, a0, a1];
    let cs: [char; 3] = [wide, a0 as char, a1 as char];
    let s = unsafe { std::str::from_utf8_unchecked(&bytes) };
    let case = match CASE {
        0 => CaseMatching::Respect,
        1 => CaseMatching::Ignore,
        _ => CaseMatching::Smart,
    };
    let norm = if NORM { Normalization::Smart } else { Normalization::Never };
    let atom = Atom::new_inner(&s, case, norm, AtomKind::Fuzzy, ESC, false);

    // reference, from the statement: an escaped space becomes a literal space, everything else is
    // kept literally; smart case ignores case exactly when no character is upper case; smart
    // normalisation is on exactly when no character would itself be normalised; ignore-case
    // needles are stored case-folded
    let mut text = ['a'; L];
    let mut n = 0;
    let mut k = 0;
    while k < L {
        if ESC && cs[k] == '\\' && k + 1 < L && cs[k + 1] == ' ' {
            text[n] = ' ';
            n += 1;
            k += 2;
        } else {
            text[n] = cs[k];
            n += 1;
            k += 1;
        }
    }
    let mut any_upper = false;
    let mut any_normalizable = false;
    let mut k = 0;
    while k < n {
        any_upper = any_upper || model_is_upper(text[k]);
        // "no character that would itself be normalised" is read on the atom as stored, i.e. after
        // the case folding that CaseMatching::Ignore applies (ſ is stored as s, which is not normalised)
        let stored = if CASE == 1 { model_fold(text[k]) } else { text[k] };
        any_normalizable = any_normalizable || model_normalize(stored) != stored;
        k += 1;
    }
    let want_ignore_case = match CASE {
        0 => false,
        1 => true,
        _ => !any_upper,
    };
    let want_normalize = NORM && !any_normalizable;
    assert!(atom.ignore_case == want_ignore_case, "smart case ignores case exactly when the atom has no upper-case character");
    assert!(atom.normalize == want_normalize, "smart normalisation is on exactly when the atom has no character that would itself be normalised");
    match &atom.needle {
        Utf32String::Unicode(got) => {
            assert!(got.len() == n, "escaped spaces become one literal space, everything else is kept once");
            let mut k = 0;
            while k < n {
                let want = if CASE == 1 { model_fold(text[k]) } else { text[k] };
                assert!(got[k] == want, "the needle is exactly the unescaped text (case-folded under CaseMatching::Ignore)");
                k += 1;
            }
        }
        Utf32String::Ascii(_) => assert!(false, "text with non-ASCII characters is stored in code-point form"),
    }
    kani::cover!(TAIL != 0 || !ESC || n < L);
}
