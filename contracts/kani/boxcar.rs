// Contracts for src/boxcar.rs (C08 sequential content, C11 drop-exactly-once for sequential,
// non-panicking histories).  Injected as `boxcar::verif_boxcar`.
//
// NOT decided here (Kani executes one thread): everything C08/C11 quantify over schedules.
use super::*;

// ----------------------------------------------------------------------------------------------
// K-loc [complete]: the index -> (bucket, entry) map, all 2^32 indices
// ----------------------------------------------------------------------------------------------
#[kani::proof]
fn c08_location_of() {
    let index: u32 = kani::any();
    kani::assume(index <= MAX_ENTRIES);
    let l = Location::of(index);
    assert!(l.bucket < BUCKETS, "bucket index is in bounds of the bucket array");
    assert!(l.bucket_len == 32u32 << l.bucket && l.bucket_len == Location::bucket_len(l.bucket));
    assert!(l.entry < l.bucket_len, "entry index is in bounds of its bucket");
    // closed form: buckets before `bucket` hold exactly bucket_len - 32 entries, so the map is a
    // bijection between indices and (bucket, entry) slots that preserves order (gap-free, distinct)
    assert!(l.bucket_len - 32 + l.entry == index, "distinct indices map to distinct slots, in order, without gaps");
    assert!(l.alloc_next_bucket_entry() < l.bucket_len && l.alloc_next_bucket_entry() == l.bucket_len - l.bucket_len / 8);
    kani::cover!(l.bucket == 26);
}

#[kani::proof]
fn c08_location_order() {
    let i: u32 = kani::any();
    let j: u32 = kani::any();
    kani::assume(i < j && j <= MAX_ENTRIES);
    let a = Location::of(i);
    let b = Location::of(j);
    assert!(a.bucket < b.bucket || (a.bucket == b.bucket && a.entry < b.entry));
    kani::cover!(a.bucket < b.bucket);
}

// ----------------------------------------------------------------------------------------------
// K-layoutE [complete]: entries of a bucket are disjoint and inside the bucket allocation
// ----------------------------------------------------------------------------------------------
fn entry_layout_contract<T>() {
    let cols: u32 = kani::any();
    kani::assume(cols >= 1 && cols <= 64);
    let bucket: u32 = kani::any();
    kani::assume(bucket < 3);
    let len = Location::bucket_len(bucket);
    let idx: u32 = kani::any();
    kani::assume(idx < len);
    let el = Entry::<T>::layout(cols);
    let bl = Bucket::<T>::layout(len, el);
    let head = Layout::new::<Entry<T>>();
    // the column tail starts at the (aligned) end of the head and fits in the entry
    let tail_off = std::mem::offset_of!(Entry<T>, tail);
    assert!(tail_off + cols as usize * std::mem::size_of::<Utf32String>() <= el.size(), "all matcher columns lie inside the entry");
    assert!(tail_off % std::mem::align_of::<Utf32String>() == 0);
    assert!(el.size() % el.align() == 0 && el.align() >= head.align());
    // entry idx occupies [idx*size, (idx+1)*size) which lies inside the bucket allocation
    assert!((idx as usize + 1) * el.size() <= bl.size(), "entry lies inside the bucket allocation");
    let base = unsafe { std::alloc::alloc(bl) } as *mut Entry<T>;
    kani::assume(!base.is_null());
    let p = unsafe { Bucket::<T>::get(base, idx, cols) };
    assert!(p as usize == base as usize + idx as usize * el.size(), "Bucket::get addresses entry idx");
    unsafe { std::alloc::dealloc(base as *mut u8, bl) };
    kani::cover!(idx > 40);
}

#[kani::proof]
fn c08_entry_layout_u8() {
    entry_layout_contract::<u8>();
}

#[kani::proof]
fn c08_entry_layout_u64() {
    entry_layout_contract::<u64>();
}

#[kani::proof]
fn c08_entry_layout_24() {
    entry_layout_contract::<[u8; 24]>();
}

// ----------------------------------------------------------------------------------------------
// K-vecseq [bounded]: sequential contract of the vector against an abstract view
// ----------------------------------------------------------------------------------------------

/// an ExactSizeIterator that reports `reported` items but yields `actual` (<= 3)
pub struct Liar<T: Copy> {
    pub reported: usize,
    pub actual: usize,
    pub items: [T; 3],
    pub next: usize,
}
impl<T: Copy> Iterator for Liar<T> {
    type Item = T;
    fn next(&mut self) -> Option<T> {
        if self.next < self.actual {
            self.next += 1;
            Some(self.items[self.next - 1])
        } else {
            None
        }
    }
    fn size_hint(&self) -> (usize, Option<usize>) {
        (self.reported, Some(self.reported))
    }
}
impl<T: Copy> ExactSizeIterator for Liar<T> {
    fn len(&self) -> usize {
        self.reported
    }
}

fn fill_from(v: &u32, cols: &mut [Utf32String]) {
    // column 0 carries one char derived from the value so that "the columns its fill callback
    // produced" is observable
    cols[0] = Utf32String::Unicode(vec![char::from_u32(0x100 + (*v & 0xff)).unwrap()].into_boxed_slice());
}

fn col0_of(item: &Item<'_, u32>) -> u32 {
    match &item.matcher_columns[0] {
        Utf32String::Unicode(c) => c[0] as u32 - 0x100,
        _ => 0xffff,
    }
}

/// push / push / get: gap-free indices, read-your-writes with value AND columns, nothing for
/// unassigned indices, count
pub fn vec_push_get<const CAP: u32, const COLS: u32>() {
    let v: Vec<u32> = Vec::with_capacity(CAP, COLS);
    assert!(v.count() == 0 && v.get(0).is_none(), "empty vector: nothing to look up");
    let a: u32 = kani::any();
    let b: u32 = kani::any();
    let ia = v.push(a, fill_from);
    assert!(ia == 0 && v.count() == 1);
    let ib = v.push(b, fill_from);
    assert!(ib == 1 && v.count() == 2, "pushes receive distinct, gap-free indices; count == completed pushes");
    let i: u32 = kani::any();
    kani::assume(i < 4 || i == 31 || i == 32 || i == 95 || i == 96);
    match v.get(i) {
        Some(item) => {
            assert!(i < 2, "a lookup never returns anything for an index that no push was assigned");
            let want = if i == 0 { a } else { b };
            assert!(*item.data == want, "lookup returns the pushed value");
            assert!(item.matcher_columns.len() == COLS as usize && col0_of(&item) == (want & 0xff), "lookup returns the columns the fill callback produced");
        }
        None => assert!(i >= 2, "a completed push is visible to every later lookup"),
    }
    kani::cover!(i == 1);
    std::mem::forget(v); // dropping is K-drop's subject
}

/// extend with an honest or short ("lying") ExactSizeIterator, then push: indices are reserved
/// as reported, filled as yielded, reserved-but-unfilled indices read as nothing
pub fn vec_extend_get<const CAP: u32, const COLS: u32, const PRE: usize, const ACTUAL: usize>() {
    let v: Vec<u32> = Vec::with_capacity(CAP, COLS);
    // PRE indices reserved (and never filled) by an earlier lying batch: moves the start index
    // next to a bucket boundary without PRE loop iterations
    if PRE > 0 {
        v.extend(Liar { reported: PRE, actual: 0, items: [0u32; 3], next: 0 }, fill_from);
        assert!(v.count() == PRE as u32);
    }
    let items: [u32; 3] = kani::any();
    let actual: usize = ACTUAL;
    v.extend(Liar { reported: 3, actual, items, next: 0 }, fill_from);
    assert!(v.count() == PRE as u32 + 3, "a batch reserves as many indices as it reported");
    let x: u32 = kani::any();
    let ix = v.push(x, fill_from);
    assert!(ix == PRE as u32 + 3, "the next push continues gap-free after the reserved batch");
    let k: u32 = kani::any();
    kani::assume(k < 5);
    let i = PRE as u32 + k;
    match v.get(i) {
        Some(item) => {
            assert!((k as usize) < actual || k == 3, "reserved-but-unfilled and unassigned indices read as nothing");
            let want = if k == 3 { x } else { items[k as usize] };
            assert!(*item.data == want && col0_of(&item) == (want & 0xff), "value and columns as produced");
        }
        None => assert!(!((k as usize) < actual || k == 3), "filled indices are visible"),
    }
    if PRE > 0 {
        let j: u32 = kani::any();
        kani::assume(j < PRE as u32);
        assert!(v.get(j).is_none(), "never-filled indices of the earlier batch read as nothing");
    }
    kani::cover!(true);
    std::mem::forget(v);
}

// ----------------------------------------------------------------------------------------------
// K-drop [bounded]: every published item is dropped exactly once when the vector is dropped
// ----------------------------------------------------------------------------------------------
static mut DROPS: [u8; 4] = [0; 4];

pub struct Tracked(pub u8);
impl Drop for Tracked {
    fn drop(&mut self) {
        unsafe { DROPS[self.0 as usize] += 1 };
    }
}
fn fill_tracked(_v: &Tracked, cols: &mut [Utf32String]) {
    cols[0] = Utf32String::Unicode(vec!['x'].into_boxed_slice());
}

struct TrackedBatch {
    reported: usize,
    actual: usize,
    first_id: u8,
    next: usize,
}
impl Iterator for TrackedBatch {
    type Item = Tracked;
    fn next(&mut self) -> Option<Tracked> {
        if self.next < self.actual {
            self.next += 1;
            Some(Tracked(self.first_id + self.next as u8 - 1))
        } else {
            None
        }
    }
}
impl ExactSizeIterator for TrackedBatch {
    fn len(&self) -> usize {
        self.reported
    }
}

/// history: [reserve PRE unfilled indices] ; extend(reported 2, yields `actual`) ; push ; drop
pub fn vec_drop_exactly_once<const CAP: u32, const PRE: usize, const ACTUAL: usize>() {
    unsafe { DROPS = [0; 4] };
    let v: Vec<Tracked> = Vec::with_capacity(CAP, 1);
    if PRE > 0 {
        v.extend(TrackedBatch { reported: PRE, actual: 0, first_id: 0, next: 0 }, fill_tracked);
    }
    let actual: usize = ACTUAL;
    v.extend(TrackedBatch { reported: 2, actual, first_id: 0, next: 0 }, fill_tracked);
    v.push(Tracked(2), fill_tracked);
    unsafe {
        assert!(DROPS[0] == 0 && DROPS[1] == 0 && DROPS[2] == 0, "nothing is dropped while the vector is alive");
    }
    drop(v);
    unsafe {
        assert!(DROPS[0] == if actual >= 1 { 1 } else { 0 }, "yielded item 0 is dropped exactly once");
        assert!(DROPS[1] == if actual >= 2 { 1 } else { 0 }, "yielded item 1 is dropped exactly once");
        assert!(DROPS[2] == 1, "the pushed item is dropped exactly once when the vector is dropped");
    }
    kani::cover!(true);
}

/// canary: must FAIL
pub fn boxcar_canary() {
    let v: Vec<u32> = Vec::with_capacity(0, 1);
    let i = v.push(7, fill_from);
    let got = v.get(i).is_some();
    std::mem::forget(v);
    assert!(!got);
}

/// an iterator that yields MORE than it reported must be caught (panic) before anything is written
/// outside the reserved index range.  Contract: this call panics.  (#[kani::should_panic])
pub fn vec_extend_overreport_panics<const REPORTED: usize>() {
    let v: Vec<u32> = Vec::with_capacity(0, 1);
    let items: [u32; 3] = kani::any();
    v.extend(Liar { reported: REPORTED, actual: REPORTED + 1, items, next: 0 }, fill_from);
    // not reached when the contract holds
    std::mem::forget(v);
}

/// the snapshot iterator (what the worker reads through) agrees with `get`: it yields every index of
/// [start, count) exactly once, in order, across bucket boundaries, with an item exactly where
/// `get` returns one
pub fn vec_snapshot_iter_agrees<const PRE: usize, const ACTUAL: usize>() {
    let v: Vec<u32> = Vec::with_capacity(0, 1);
    if PRE > 0 {
        v.extend(Liar { reported: PRE, actual: 0, items: [0u32; 3], next: 0 }, fill_from);
    }
    let items: [u32; 3] = kani::any();
    v.extend(Liar { reported: 3, actual: ACTUAL, items, next: 0 }, fill_from);
    let x: u32 = kani::any();
    v.push(x, fill_from);
    let start = PRE as u32;
    let mut it = unsafe { v.snapshot(start) };
    assert!(it.end() == v.count() && it.end() == PRE as u32 + 4);
    let mut k = 0u32;
    while k < 4 {
        match it.next() {
            Some((idx, item)) => {
                assert!(idx == start + k, "the iterator yields consecutive indices");
                let direct = v.get(idx);
                assert!(item.is_some() == direct.is_some(), "an item exactly where get returns one");
                if let (Some(a), Some(b)) = (item, direct) {
                    assert!(*a.data == *b.data, "the same item as get");
                }
            }
            None => assert!(false, "the iterator covers every index below count"),
        }
        k += 1;
    }
    assert!(it.next().is_none(), "and stops at count");
    kani::cover!(true);
    std::mem::forget(v);
}

/// a payload type WITHOUT drop glue: the matcher columns filled for it must still be destroyed when
/// the vector is dropped.  Checked with CBMC's memory-leak check (the columns own heap blocks).
pub fn vec_drop_plain_payload_no_leak() {
    let v: Vec<u32> = Vec::with_capacity(0, 1);
    let a: u32 = kani::any();
    v.push(a, fill_from);
    v.push(a, fill_from);
    drop(v);
    kani::cover!(true);
}
