// Contracts for matcher/src/prefilter.rs (C01; C16's "filtering sees the same character").
// Injected as `prefilter::verif_prefilter`.
use super::*;
use crate::chars::AsciiChar;
use crate::verif_spec::*;
use crate::Config;

/// K-agree-prefilter [complete]: the byte search the ASCII prefilter uses finds haystack byte `h`
/// for needle byte `c` exactly when `h` normalises to `c` -- the same relation scoring/comparing use.
#[kani::proof]
#[kani::unwind(3)]
fn c16_prefilter_byte_relation() {
    let h: u8 = kani::any();
    let c: u8 = kani::any();
    kani::assume(h < 128 && c < 128);
    let mut cfg = Config::DEFAULT;
    cfg.ignore_case = kani::any();
    cfg.normalize = kani::any();
    // documented caller obligation: the needle is already normalised
    kani::assume(!(cfg.ignore_case && c >= b'A' && c <= b'Z'));
    let hay = [h];
    let fwd = if cfg.ignore_case { find_ascii_ignore_case(c, &hay) } else { ::memchr::memchr(c, &hay) };
    let rev = if cfg.ignore_case { find_ascii_ignore_case_rev(c, &hay) } else { ::memchr::memrchr(c, &hay) };
    let rel = AsciiChar(h).normalize(&cfg).0 == c;
    assert!(fwd.is_some() == rel, "forward prefilter search <=> normalize(h) == c");
    assert!(rev.is_some() == rel, "reverse prefilter search <=> normalize(h) == c");
    kani::cover!(rel && h != c);
}

/// K-pre-a [bounded]: contract of prefilter_ascii; call-site precondition 1 <= N < H.
pub fn prefilter_ascii_contract<const H: usize, const N: usize, const K: u8>() {
    let hay: [u8; H] = kani::any();
    let needle: [u8; N] = kani::any();
    kani::assume(all_ascii(&hay));
    let (cfg, _) = sym_config(K);
    kani::assume(needle_normalized_ascii(&needle, &cfg));
    let only_greedy: bool = kani::any();
    let m = small_matcher(cfg.clone(), 8);
    let r = m.prefilter_ascii(&hay, &needle, only_greedy);
    let h = ascii(&hay);
    let n = ascii(&needle);
    let subseq = spec_subseq(h, n, &cfg);
    assert!(r.is_some() == subseq, "the prefilter rejects exactly the haystacks that do not contain the needle as a normalised subsequence");
    if let Some((s, g, e)) = r {
        assert!(s < g && g <= e && e <= H);
        assert!(first_match(h, n[0], 0, &cfg) == Some(s), "start is the first occurrence of the first needle character");
        // (s, g) is the forward-greedy window: the precondition of calculate_score / fuzzy_match_optimal
        if N == 1 {
            assert!(g == s + 1);
        } else {
            assert!(greedy_window::<AsciiChar, AsciiChar, N>(h, n, s, g, &cfg).is_some(), "(start, greedy_end) is the forward-greedy window");
        }
        if only_greedy {
            assert!(e == g);
        } else {
            assert!(last_match(h, n[N - 1], g - 1, &cfg) == Some(e - 1), "end-1 is the last occurrence of the last needle character");
        }
    }
    kani::cover!(r.is_some());
    std::mem::forget(m);
}

/// canary: must FAIL
pub fn prefilter_canary() {
    let hay: [u8; 4] = kani::any();
    let needle: [u8; 2] = kani::any();
    kani::assume(all_ascii(&hay) && all_ascii(&needle));
    let m = small_matcher(Config::DEFAULT, 8);
    let r = m.prefilter_ascii(&hay, &needle, false);
    std::mem::forget(m);
    assert!(r.is_none());
}
