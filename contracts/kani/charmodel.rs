// Character model for the code-point (`Unicode`) representation paths.  Injected as
// `chars::verif_charmodel`.
//
// Symbolic `char`s through the real `to_lower_case` (binary search in a 1454-entry table),
// `normalize` and `char_class_non_ascii` (std's skip_search tables) make every string-level query
// intractable.  String-level harnesses over `&[char]` therefore (a) draw characters from the domain
// D = all ASCII + the 16 non-ASCII characters below and (b) replace the three character-level
// functions by the table `model_*` -- their CONTRACT on D.  The obligation `c01_charmodel_valid`
// proves, for every character of D, that the real functions return exactly what the table says
// (callee against its body); the string-level obligations are then checked against the table
// (caller against the callee's contract).
use super::*;

pub const NON_ASCII: [char; 16] = [
    'ä', 'Ä', 'ß', 'é', 'É', 'ς', 'σ', 'Σ', 'ſ', 'µ', 'μ', '②', '日', '\u{3000}', '²', 'à',
];

pub fn in_domain(c: char) -> bool {
    if (c as u32) < 128 {
        return true;
    }
    let mut i = 0;
    while i < NON_ASCII.len() {
        if NON_ASCII[i] == c {
            return true;
        }
        i += 1;
    }
    false
}

/// a symbolic character of D
pub fn any_char() -> char {
    let pick: u8 = kani::any();
    if pick < 128 {
        pick as char
    } else {
        NON_ASCII[(pick & 15) as usize]
    }
}

pub fn model_fold(c: char) -> char {
    match c {
        'A'..='Z' => (c as u8 + 32) as char,
        'Ä' => 'ä',
        'É' => 'é',
        'Σ' => 'σ',
        'ς' => 'σ',
        'ſ' => 's',
        'µ' => 'μ',
        _ => c,
    }
}

pub fn model_is_upper(c: char) -> bool {
    model_fold(c) != c
}

pub fn model_normalize(c: char) -> char {
    match c {
        'ä' => 'a',
        'Ä' => 'A',
        'é' => 'e',
        'É' => 'E',
        '²' => '2',
        'ſ' => 's',
        'ß' => 's',
        'à' => 'a',
        _ => c,
    }
}

pub fn model_class_non_ascii(c: char) -> CharClass {
    match c {
        'ä' | 'à' | 'ß' | 'é' | 'ς' | 'σ' | 'ſ' | 'µ' | 'μ' => CharClass::Lower,
        'Ä' | 'É' | 'Σ' => CharClass::Upper,
        '②' | '²' => CharClass::Number,
        '日' => CharClass::Letter,
        '\u{3000}' => CharClass::Whitespace,
        _ => CharClass::NonWord,
    }
}

/// the table is the real functions' behaviour on D (complete over D: 128 ASCII + 16 characters)
#[kani::proof]
#[kani::unwind(40)]
fn c01_charmodel_valid_non_ascii() {
    let mut i = 0;
    while i < NON_ASCII.len() {
        let c = NON_ASCII[i];
        assert!(to_lower_case(c) == model_fold(c));
        assert!(is_upper_case(c) == model_is_upper(c));
        assert!(normalize::normalize(c) == model_normalize(c));
        assert!(char_class_non_ascii(c) == model_class_non_ascii(c));
        assert!(c.is_whitespace() == (c == '\u{3000}'));
        i += 1;
    }
    kani::cover!(true);
}

#[kani::proof]
#[kani::unwind(13)]
fn c01_charmodel_valid_ascii() {
    let b: u8 = kani::any();
    kani::assume(b < 128);
    let c = b as char;
    assert!(to_lower_case(c) == model_fold(c));
    assert!(is_upper_case(c) == model_is_upper(c));
    assert!(normalize::normalize(c) == model_normalize(c));
    kani::cover!(true);
}
