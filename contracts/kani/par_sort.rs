// Contracts for src/par_sort.rs (C18, sequential building blocks).  Bounded: every array of L
// elements over a symbolic content; the order is the strict weak order "low 2 bits of the byte",
// so equal keys with distinguishable payloads occur (exercises the equal-element branches).
// Injected as `par_sort::verif_par_sort`.
//
// NOT decided: slices longer than the stated L (the 128-element block loop, the >2000 parallel
// split, the mid-sort cancellation check), real parallel `rayon::join`, and the clause about the
// worker's comparison being a total order.
use super::*;

fn key(a: &u8) -> u8 {
    *a & 3
}
fn less(a: &u8, b: &u8) -> bool {
    key(a) < key(b)
}

fn sorted(v: &[u8]) -> bool {
    let mut i = 1;
    while i < v.len() {
        if less(&v[i], &v[i - 1]) {
            return false;
        }
        i += 1;
    }
    true
}

fn count(v: &[u8], x: u8) -> usize {
    let mut n = 0;
    let mut i = 0;
    while i < v.len() {
        if v[i] == x {
            n += 1;
        }
        i += 1;
    }
    n
}

/// permutation check through a symbolic probe value: for EVERY byte x its multiplicity is preserved
fn is_permutation<const L: usize>(old: &[u8; L], new: &[u8; L]) -> bool {
    let x: u8 = kani::any();
    count(old, x) == count(new, x)
}

pub fn k18_insertion_sort<const L: usize>() {
    let old: [u8; L] = kani::any();
    let mut v = old;
    insertion_sort(&mut v, &less);
    assert!(sorted(&v), "insertion_sort leaves the slice in non-decreasing order");
    assert!(is_permutation(&old, &v), "insertion_sort permutes its input");
    kani::cover!(v[0] != old[0]);
}

pub fn k18_heapsort<const L: usize>() {
    let old: [u8; L] = kani::any();
    let mut v = old;
    heapsort(&mut v, &less);
    assert!(sorted(&v), "heapsort leaves the slice in non-decreasing order");
    assert!(is_permutation(&old, &v), "heapsort permutes its input");
    kani::cover!(v[0] != old[0]);
}

pub fn k18_shift_head<const L: usize>() {
    let old: [u8; L] = kani::any();
    kani::assume(sorted(&old[1..]));
    let mut v = old;
    shift_head(&mut v, &less);
    assert!(sorted(&v), "shift_head: tail sorted => whole slice sorted");
    assert!(is_permutation(&old, &v));
    kani::cover!(v[0] != old[0]);
}

pub fn k18_shift_tail<const L: usize>() {
    let old: [u8; L] = kani::any();
    kani::assume(sorted(&old[..L - 1]));
    let mut v = old;
    shift_tail(&mut v, &less);
    assert!(sorted(&v), "shift_tail: head sorted => whole slice sorted");
    assert!(is_permutation(&old, &v));
    kani::cover!(v[L - 1] != old[L - 1]);
}

pub fn k18_partial_insertion_sort<const L: usize>() {
    let old: [u8; L] = kani::any();
    let mut v = old;
    let done = partial_insertion_sort(&mut v, &less);
    if done {
        assert!(sorted(&v), "partial_insertion_sort reports success only for a sorted slice");
    }
    assert!(is_permutation(&old, &v), "partial_insertion_sort permutes its input");
    kani::cover!(done);
}

pub fn k18_partition<const L: usize>() {
    let old: [u8; L] = kani::any();
    let pivot: usize = kani::any();
    kani::assume(pivot < L);
    let pv = old[pivot];
    let mut v = old;
    let (mid, was_partitioned) = partition(&mut v, pivot, &less);
    assert!(mid < L && v[mid] == pv, "the pivot ends up at the returned position");
    let mut i = 0;
    while i < L {
        if i < mid {
            assert!(less(&v[i], &pv), "elements left of mid are less than the pivot");
        } else {
            assert!(!less(&v[i], &pv), "elements from mid on are not less than the pivot");
        }
        i += 1;
    }
    assert!(is_permutation(&old, &v), "partition permutes its input");
    let _ = was_partitioned;
    kani::cover!(mid > 0 && mid < L - 1);
}

pub fn k18_partition_equal<const L: usize>() {
    let old: [u8; L] = kani::any();
    let pivot: usize = kani::any();
    kani::assume(pivot < L);
    let pv = old[pivot];
    // call-site precondition: no element is smaller than the pivot
    let mut i = 0;
    while i < L {
        kani::assume(!less(&old[i], &pv));
        i += 1;
    }
    let mut v = old;
    let mid = partition_equal(&mut v, pivot, &less);
    assert!(mid >= 1 && mid <= L);
    let mut i = 0;
    while i < L {
        if i < mid {
            assert!(!less(&pv, &v[i]), "elements left of mid are equal to the pivot");
        } else {
            assert!(less(&pv, &v[i]), "elements from mid on are greater than the pivot");
        }
        i += 1;
    }
    assert!(is_permutation(&old, &v), "partition_equal permutes its input");
    kani::cover!(mid < L);
}

pub fn k18_choose_pivot<const L: usize>() {
    let old: [u8; L] = kani::any();
    let mut v = old;
    let (p, _likely_sorted) = choose_pivot(&mut v, &less);
    assert!(p < L, "the chosen pivot index is in bounds");
    assert!(is_permutation(&old, &v), "choose_pivot permutes its input");
    kani::cover!(true);
}

pub fn k18_break_patterns<const L: usize>() {
    let old: [u8; L] = kani::any();
    let mut v = old;
    break_patterns(&mut v);
    assert!(is_permutation(&old, &v), "break_patterns permutes its input");
    kani::cover!(true);
}

/// the public entry: sorted permutation, reports "not cancelled" when the flag is never raised;
/// flag raised before the call => reports cancelled and leaves the slice untouched
pub fn k18_par_quicksort<const L: usize>() {
    let old: [u8; L] = kani::any();
    let mut v = old;
    let raised: bool = kani::any();
    let flag = AtomicBool::new(raised);
    let cancelled = par_quicksort(&mut v, less, &flag);
    if !raised {
        assert!(!cancelled, "reports 'not cancelled' when the flag was never raised");
        assert!(sorted(&v), "the slice is in non-decreasing order");
    } else {
        assert!(cancelled);
    }
    assert!(is_permutation(&old, &v), "the slice is a permutation of its input, cancelled or not");
    kani::cover!(!raised && v[0] != old[0]);
}

/// canary: must FAIL
pub fn k18_canary() {
    let old: [u8; 4] = kani::any();
    let mut v = old;
    insertion_sort(&mut v, &less);
    assert!(v[0] == old[0]);
}

/// sequential stand-in for `rayon::join` (Kani cannot compile rayon's `catch_unwind`); never
/// executed at the sizes checked here (slices <= 20 elements are insertion-sorted)
pub fn seq_join<A, B, RA, RB>(a: A, b: B) -> (RA, RB)
where
    A: FnOnce() -> RA + Send,
    B: FnOnce() -> RB + Send,
    RA: Send,
    RB: Send,
{
    (a(), b())
}
