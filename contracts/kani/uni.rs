// Contracts for the code-point (`Unicode`) representation paths (C01, C02, C03, C05; the C01 clause
// "the decision does not depend on the representation").  Bounded.  Injected as `crate::verif_uni`.
//
// Characters are drawn from the domain D of contracts/kani/charmodel.rs (all ASCII + 16 non-ASCII
// characters); `to_lower_case`, `normalize`, `char_class_non_ascii` are replaced (kani::stub) by
// the model table that `c01-charmodel-valid-*` ties to the real functions on D.
//
// REP: 1 = (Unicode haystack, Ascii needle), 2 = (Unicode, Unicode),
//      3 = (Ascii haystack, Unicode needle holding only ASCII characters),
//      4 = (Unicode haystack holding only ASCII characters, Ascii needle).
use crate::chars::verif_charmodel::{any_char, model_fold, model_normalize};
use crate::chars::{AsciiChar, Char};
use crate::verif_spec::*;
use crate::{Config, Matcher, Utf32Str};

pub const FUZZY: u8 = 0;
pub const GREEDY: u8 = 1;
pub const SUBSTRING: u8 = 2;
pub const PREFIX: u8 = 3;
pub const POSTFIX: u8 = 4;
pub const EXACT: u8 = 5;

struct In<const H: usize, const N: usize> {
    hay: [char; H],
    needle: [char; N],
    hay_b: [u8; H],
    needle_b: [u8; N],
    cfg: Config,
    kind: Bonuses,
}

/// the needle is "already normalised" in the model: it is a fixpoint of the configured maps
fn needle_normalized(n: &[char], cfg: &Config) -> bool {
    let mut k = 0;
    while k < n.len() {
        let mut e = n[k];
        if cfg.normalize {
            e = model_normalize(e);
        }
        if cfg.ignore_case {
            e = model_fold(e);
        }
        if e != n[k] {
            return false;
        }
        k += 1;
    }
    true
}

fn inputs<const REP: u8, const H: usize, const N: usize, const K: u8>() -> In<H, N> {
    let mut hay = ['a'; H];
    let mut needle = ['a'; N];
    let mut hay_b = [0u8; H];
    let mut needle_b = [0u8; N];
    let mut k = 0;
    while k < H {
        hay[k] = any_char();
        if REP == 3 || REP == 4 {
            kani::assume((hay[k] as u32) < 128);
        }
        hay_b[k] = hay[k] as u32 as u8;
        k += 1;
    }
    let mut k = 0;
    while k < N {
        needle[k] = any_char();
        if REP != 2 {
            kani::assume((needle[k] as u32) < 128);
        }
        needle_b[k] = needle[k] as u32 as u8;
        k += 1;
    }
    let (cfg, kind) = sym_config(K);
    kani::assume(needle_normalized(&needle, &cfg));
    In { hay, needle, hay_b, needle_b, cfg, kind }
}

fn call<const REP: u8, const ALG: u8, const INDICES: bool, const H: usize, const N: usize>(
    m: &mut Matcher,
    i: &In<H, N>,
    idx: &mut Vec<u32>,
) -> Option<u16> {
    let h = if REP == 3 { Utf32Str::Ascii(&i.hay_b) } else { Utf32Str::Unicode(&i.hay) };
    let n = if REP == 2 || REP == 3 { Utf32Str::Unicode(&i.needle) } else { Utf32Str::Ascii(&i.needle_b) };
    match (ALG, INDICES) {
        (FUZZY, false) => m.fuzzy_match(h, n),
        (FUZZY, true) => m.fuzzy_indices(h, n, idx),
        (GREEDY, false) => m.fuzzy_match_greedy(h, n),
        (GREEDY, true) => m.fuzzy_indices_greedy(h, n, idx),
        (SUBSTRING, false) => m.substring_match(h, n),
        (SUBSTRING, true) => m.substring_indices(h, n, idx),
        (PREFIX, false) => m.prefix_match(h, n),
        (PREFIX, true) => m.prefix_indices(h, n, idx),
        (POSTFIX, false) => m.postfix_match(h, n),
        (POSTFIX, true) => m.postfix_indices(h, n, idx),
        (EXACT, false) => m.exact_match(h, n),
        (_, _) => m.exact_indices(h, n, idx),
    }
}

fn is_ws(c: char) -> bool {
    c == ' ' || c == '\t' || c == '\n' || c == '\u{0C}' || c == '\r' || c == '\u{3000}'
}

fn no_vt(s: &[char]) -> bool {
    let mut k = 0;
    while k < s.len() {
        if s[k] == '\u{0B}' || (s[k] as u32 >= 0x1c && s[k] as u32 <= 0x1f) {
            return false;
        }
        k += 1;
    }
    true
}

fn leading_ws(hay: &[char]) -> usize {
    let mut k = 0;
    while k < hay.len() && is_ws(hay[k]) {
        k += 1;
    }
    k
}

fn trailing_ws(hay: &[char]) -> usize {
    let mut k = 0;
    while k < hay.len() && is_ws(hay[hay.len() - 1 - k]) {
        k += 1;
    }
    k
}

/// the documented relation over the characters, independent of the representation
fn spec_relation<const ALG: u8, const H: usize, const N: usize>(i: &In<H, N>) -> Option<usize> {
    let h: &[char] = &i.hay;
    let n: &[char] = &i.needle;
    if N == 0 {
        return Some(0);
    }
    match ALG {
        FUZZY | GREEDY => {
            if spec_subseq(h, n, &i.cfg) {
                Some(0)
            } else {
                None
            }
        }
        SUBSTRING => spec_best_occurrence(h, n, &i.cfg, i.kind),
        _ => {
            let lead = if (ALG == PREFIX || ALG == EXACT) && !is_ws(n[0]) { leading_ws(h) } else { 0 };
            let trail = if (ALG == POSTFIX || ALG == EXACT) && !is_ws(n[N - 1]) { trailing_ws(h) } else { 0 };
            if lead + trail + N > H {
                return None;
            }
            let at = match ALG {
                PREFIX => lead,
                POSTFIX => H - trail - N,
                _ => {
                    if lead + trail + N != H {
                        return None;
                    }
                    lead
                }
            };
            if spec_occurs_at(h, n, at, &i.cfg) {
                Some(at)
            } else {
                None
            }
        }
    }
}

pub fn uni_decision<const REP: u8, const ALG: u8, const H: usize, const N: usize, const K: u8>() {
    let i = inputs::<REP, H, N, K>();
    kani::assume(ALG < PREFIX || (no_vt(&i.hay) && no_vt(&i.needle)));
    let mut m = small_matcher(i.cfg.clone(), crate::fuzzy_optimal::verif_optimal::SLAB);
    let r = call::<REP, ALG, false, H, N>(&mut m, &i, &mut Vec::new());
    // frame: a call must not change the configuration (C10: the result of later calls depends only
    // on their arguments and the configuration the caller set)
    assert!(m.config == i.cfg, "the call leaves the matcher's configuration untouched");
    let spec = spec_relation::<ALG, H, N>(&i);
    assert!(r.is_some() == spec.is_some(), "the entry point succeeds exactly when the documented relation holds, whatever the representation");
    kani::cover!(if N <= H { r.is_some() } else { r.is_none() });
    std::mem::forget(m);
}

pub fn uni_witness<const REP: u8, const ALG: u8, const H: usize, const N: usize, const K: u8>() {
    let i = inputs::<REP, H, N, K>();
    kani::assume(ALG < PREFIX || (no_vt(&i.hay) && no_vt(&i.needle)));
    let mut m = small_matcher(i.cfg.clone(), crate::fuzzy_optimal::verif_optimal::SLAB);
    let p0: u32 = kani::any();
    let mut idx = Vec::with_capacity(N + 2);
    idx.push(p0);
    let r = call::<REP, ALG, true, H, N>(&mut m, &i, &mut idx);
    assert!(m.config == i.cfg, "the call leaves the matcher's configuration untouched");
    let spec = spec_relation::<ALG, H, N>(&i);
    assert!(r.is_some() == spec.is_some(), "the indices entry point succeeds exactly when the documented relation holds");
    assert!(idx[0] == p0, "earlier content of the indices vector is untouched");
    match r {
        None => assert!(idx.len() == 1, "a failed match appends nothing"),
        Some(s) => {
            assert!(idx.len() == 1 + N, "exactly one index per needle character is appended");
            if N > 0 {
                let mut got = [0u32; N];
                let mut k = 0;
                while k < N {
                    got[k] = idx[1 + k];
                    k += 1;
                }
                let h: &[char] = &i.hay;
                let n: &[char] = &i.needle;
                assert!(spec_witness(h, n, &i.cfg, &got), "indices are a valid witness");
                if ALG >= SUBSTRING {
                    assert!(contiguous(&got), "indices are contiguous");
                    assert!(Some(got[0] as usize) == spec, "the match is anchored where the kind requires");
                }
                assert!(s as u32 == spec_score(h, &i.cfg, i.kind, &got), "score == fzf scheme on the reported alignment");
            }
        }
    }
    kani::cover!(if N <= H { r.is_some() } else { r.is_none() });
    std::mem::forget(m);
}

pub fn uni_agree<const REP: u8, const ALG: u8, const H: usize, const N: usize, const K: u8>() {
    let i = inputs::<REP, H, N, K>();
    let mut m = small_matcher(i.cfg.clone(), crate::fuzzy_optimal::verif_optimal::SLAB);
    let mut idx = Vec::with_capacity(N + 2);
    let r1 = call::<REP, ALG, true, H, N>(&mut m, &i, &mut idx);
    let r2 = call::<REP, ALG, false, H, N>(&mut m, &i, &mut Vec::new());
    assert!(r1 == r2, "score-only and indices variants agree");
    kani::cover!(if N <= H { r1.is_some() } else { r1.is_none() });
    std::mem::forget(m);
}

/// canary: must FAIL
pub fn uni_canary() {
    let i = inputs::<2, 2, 2, 0>();
    let mut m = small_matcher(i.cfg.clone(), 8);
    let r = call::<2, EXACT, false, 2, 2>(&mut m, &i, &mut Vec::new());
    std::mem::forget(m);
    assert!(r.is_none());
}

// ---------------------------------------------------------------------------------------------
// the REAL fuzzy_match_optimal on a code-point haystack (callee-against-body side for H = char;
// the entry obligations above replace it by its contract).  Precondition = postcondition of
// prefilter_non_ascii: hay[START] matches needle[0], hay[H-1] matches the last needle character.
// ---------------------------------------------------------------------------------------------
pub fn uni_opt_real<const H: usize, const N: usize, const START: usize>() {
    let i = inputs::<1, H, N, 0>();
    let n = ascii(&i.needle_b);
    let h: &[char] = &i.hay;
    kani::assume(matches(h[START], n[0], &i.cfg) && matches(h[H - 1], n[N - 1], &i.cfg));
    let mut m = small_matcher(i.cfg.clone(), crate::fuzzy_optimal::verif_optimal::SLAB);
    let p0: u32 = kani::any();
    let mut idx = Vec::with_capacity(N + 2);
    idx.push(p0);
    let r = m.fuzzy_match_optimal::<true, char, AsciiChar>(h, n, START, START + 1, H, &mut idx);
    let expect = spec_subseq(&h[START..], n, &i.cfg);
    assert!(r.is_some() == expect, "fuzzy_match_optimal on a code-point haystack succeeds exactly when the needle is a normalised subsequence of the window");
    assert!(idx[0] == p0);
    match r {
        None => assert!(idx.len() == 1, "a failed match appends nothing"),
        Some(s) => {
            assert!(idx.len() == 1 + N);
            let mut got = [0u32; N];
            let mut k = 0;
            while k < N {
                got[k] = idx[1 + k];
                k += 1;
            }
            assert!(spec_witness(h, n, &i.cfg, &got), "indices are a valid witness");
            assert!(s as u32 == spec_score(h, &i.cfg, i.kind, &got), "score == fzf scheme on the reported alignment");
        }
    }
    kani::cover!(r.is_some());
    std::mem::forget(m);
}

// ---------------------------------------------------------------------------------------------
// prefilter_non_ascii, direct contract (call-site precondition: 1 <= N < H)
// ---------------------------------------------------------------------------------------------
pub fn uni_prefilter<const REP: u8, const H: usize, const N: usize>() {
    let i = inputs::<REP, H, N, 0>();
    let only_greedy: bool = kani::any();
    // call-site precondition: a one-character needle is always prefiltered with only_greedy
    // (the backward scan for the last needle character starts AFTER `start`)
    kani::assume(N >= 2 || only_greedy);
    let m = small_matcher(i.cfg.clone(), 8);
    let needle = if REP == 2 { Utf32Str::Unicode(&i.needle) } else { Utf32Str::Ascii(&i.needle_b) };
    let r = m.prefilter_non_ascii(&i.hay, needle, only_greedy);
    let h: &[char] = &i.hay;
    let n: &[char] = &i.needle;
    // sound rejection: None only if the needle is not a normalised subsequence
    if r.is_none() {
        assert!(!spec_subseq(h, n, &i.cfg), "the prefilter never rejects a haystack that contains the needle as a normalised subsequence");
    }
    if let Some((s, e)) = r {
        assert!(s < e && e <= H && e - s >= if only_greedy { 1 } else { N });
        assert!(first_match(h, n[0], 0, &i.cfg) == Some(s) || first_match(&h[..H - N + 1], n[0], 0, &i.cfg) == Some(s), "start is the first occurrence of the first needle character");
        assert!(matches(h[s], n[0], &i.cfg));
        if only_greedy {
            assert!(e == s + 1);
        } else {
            assert!(matches(h[e - 1], n[N - 1], &i.cfg), "end-1 is an occurrence of the last needle character");
            assert!(last_match(h, n[N - 1], s + 1, &i.cfg) == Some(e - 1), "... the last one after start");
        }
    }
    kani::cover!(r.is_some());
    std::mem::forget(m);
}

// ---------------------------------------------------------------------------------------------
// Utf32Str::leading_white_space / trailing_white_space (used by prefix/postfix/exact)
// ---------------------------------------------------------------------------------------------
pub fn white_space_counts<const UNI: bool, const L: usize>() {
    let mut cs = ['a'; L];
    let mut bs = [0u8; L];
    let mut k = 0;
    while k < L {
        cs[k] = any_char();
        if !UNI {
            kani::assume((cs[k] as u32) < 128);
        }
        kani::assume(cs[k] != '\u{0B}');
        bs[k] = cs[k] as u32 as u8;
        k += 1;
    }
    let s = if UNI { Utf32Str::Unicode(&cs) } else { Utf32Str::Ascii(&bs) };
    let lead = s.leading_white_space();
    let trail = s.trailing_white_space();
    let all_ws = leading_ws(&cs) == L;
    if all_ws {
        // nothing to skip to: the callers then compare at position 0 and fail on the first character
        assert!(lead == 0 && trail == 0);
    } else {
        assert!(lead == leading_ws(&cs), "number of leading whitespace characters");
        assert!(trail == trailing_ws(&cs), "number of trailing whitespace characters");
        assert!(lead + trail < L);
    }
    kani::cover!(lead > 0 && trail > 0);
}
