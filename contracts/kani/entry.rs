// Contracts for the public entry points in matcher/src/lib.rs, ASCII x ASCII representation
// (C01, C02, C03, C05, C10).  Bounded.  Injected as `crate::verif_entry`.
//
// Shapes: H haystack length, N needle length (N = 0, N > H, N == H included), K base configuration.
// ALG selects the entry point.  Bytes, ignore_case, normalize are symbolic.
use crate::chars::AsciiChar;
use crate::verif_spec::*;
use crate::{Config, Matcher, Utf32Str};

pub const FUZZY: u8 = 0;
pub const GREEDY: u8 = 1;
pub const SUBSTRING: u8 = 2;
pub const PREFIX: u8 = 3;
pub const POSTFIX: u8 = 4;
pub const EXACT: u8 = 5;

struct In<const H: usize, const N: usize> {
    hay: [u8; H],
    needle: [u8; N],
    cfg: Config,
    kind: Bonuses,
}

fn inputs<const H: usize, const N: usize, const K: u8>() -> In<H, N> {
    let hay: [u8; H] = kani::any();
    let needle: [u8; N] = kani::any();
    kani::assume(all_ascii(&hay));
    let (cfg, kind) = sym_config(K);
    kani::assume(needle_normalized_ascii(&needle, &cfg));
    In { hay, needle, cfg, kind }
}

fn call<const ALG: u8, const INDICES: bool>(m: &mut Matcher, hay: &[u8], needle: &[u8], idx: &mut Vec<u32>) -> Option<u16> {
    let h = Utf32Str::Ascii(hay);
    let n = Utf32Str::Ascii(needle);
    match (ALG, INDICES) {
        (FUZZY, false) => m.fuzzy_match(h, n),
        (FUZZY, true) => m.fuzzy_indices(h, n, idx),
        (GREEDY, false) => m.fuzzy_match_greedy(h, n),
        (GREEDY, true) => m.fuzzy_indices_greedy(h, n, idx),
        (SUBSTRING, false) => m.substring_match(h, n),
        (SUBSTRING, true) => m.substring_indices(h, n, idx),
        (PREFIX, false) => m.prefix_match(h, n),
        (PREFIX, true) => m.prefix_indices(h, n, idx),
        (POSTFIX, false) => m.postfix_match(h, n),
        (POSTFIX, true) => m.postfix_indices(h, n, idx),
        (EXACT, false) => m.exact_match(h, n),
        (_, _) => m.exact_indices(h, n, idx),
    }
}

fn is_ws(b: u8) -> bool {
    b == b' ' || b == b'\t' || b == b'\n' || b == 0x0C || b == b'\r'
}

/// U+000B is whitespace for `char::is_whitespace` (used on the needle) but not for
/// `u8::is_ascii_whitespace` (used on an ASCII haystack); the statement does not say which applies,
/// so inputs containing it are outside this contract (recorded as an assumption).
fn no_vt(s: &[u8]) -> bool {
    let mut k = 0;
    while k < s.len() {
        if s[k] == 0x0B {
            return false;
        }
        k += 1;
    }
    true
}

fn leading_ws(hay: &[u8]) -> usize {
    let mut k = 0;
    while k < hay.len() && is_ws(hay[k]) {
        k += 1;
    }
    k
}

fn trailing_ws(hay: &[u8]) -> usize {
    let mut k = 0;
    while k < hay.len() && is_ws(hay[hay.len() - 1 - k]) {
        k += 1;
    }
    k
}

/// the documented relation: Some(start of the match) / None.  For FUZZY/GREEDY only the decision.
fn spec_relation<const ALG: u8, const H: usize, const N: usize>(i: &In<H, N>) -> Option<usize> {
    let h = ascii(&i.hay);
    let n = ascii(&i.needle);
    if N == 0 {
        return Some(0);
    }
    match ALG {
        FUZZY | GREEDY => {
            if spec_subseq(h, n, &i.cfg) {
                Some(0)
            } else {
                None
            }
        }
        SUBSTRING => spec_best_occurrence(h, n, &i.cfg, i.kind),
        _ => {
            let lead = if (ALG == PREFIX || ALG == EXACT) && !is_ws(i.needle[0]) { leading_ws(&i.hay) } else { 0 };
            let trail = if (ALG == POSTFIX || ALG == EXACT) && !is_ws(i.needle[N - 1]) { trailing_ws(&i.hay) } else { 0 };
            if lead + trail + N > H {
                return None;
            }
            let at = match ALG {
                PREFIX => lead,
                POSTFIX => H - trail - N,
                _ => {
                    if lead + trail + N != H {
                        return None;
                    }
                    lead
                }
            };
            if spec_occurs_at(h, n, at, &i.cfg) {
                Some(at)
            } else {
                None
            }
        }
    }
}

/// decision of the score-only entry point
pub fn entry_decision<const ALG: u8, const H: usize, const N: usize, const K: u8>() {
    let i = inputs::<H, N, K>();
    kani::assume(ALG < PREFIX || (no_vt(&i.hay) && no_vt(&i.needle)));
    let mut m = small_matcher(i.cfg.clone(), crate::fuzzy_optimal::verif_optimal::SLAB);
    let r = call::<ALG, false>(&mut m, &i.hay, &i.needle, &mut Vec::new());
    // frame: a call must not change the configuration (C10: the result of later calls depends only
    // on their arguments and the configuration the caller set)
    assert!(m.config == i.cfg, "the call leaves the matcher's configuration untouched");
    let spec = spec_relation::<ALG, H, N>(&i);
    assert!(r.is_some() == spec.is_some(), "the entry point succeeds exactly when the documented relation holds");
    if N == 0 {
        assert!(r == Some(0), "an empty needle matches with score 0");
    }
    kani::cover!(if N <= H { r.is_some() } else { r.is_none() });
    std::mem::forget(m);
}

/// indices entry point: same decision and score as the score-only one, W, anchoring, score == scheme
pub fn entry_witness<const ALG: u8, const H: usize, const N: usize, const K: u8>() {
    let i = inputs::<H, N, K>();
    kani::assume(ALG < PREFIX || (no_vt(&i.hay) && no_vt(&i.needle)));
    let mut m = small_matcher(i.cfg.clone(), crate::fuzzy_optimal::verif_optimal::SLAB);
    let p0: u32 = kani::any();
    let mut idx = Vec::with_capacity(N + 2);
    idx.push(p0);
    let r = call::<ALG, true>(&mut m, &i.hay, &i.needle, &mut idx);
    assert!(m.config == i.cfg, "the call leaves the matcher's configuration untouched");
    let spec = spec_relation::<ALG, H, N>(&i);
    assert!(r.is_some() == spec.is_some(), "the indices entry point succeeds exactly when the documented relation holds");
    assert!(idx[0] == p0, "earlier content of the indices vector is untouched");
    match r {
        None => assert!(idx.len() == 1, "a failed match appends nothing"),
        Some(s) => {
            assert!(idx.len() == 1 + N, "exactly one index per needle character is appended");
            if N > 0 {
                let mut got = [0u32; N];
                let mut k = 0;
                while k < N {
                    got[k] = idx[1 + k];
                    k += 1;
                }
                let h = ascii(&i.hay);
                assert!(spec_witness(h, ascii(&i.needle), &i.cfg, &got), "indices are a valid witness");
                if ALG >= SUBSTRING {
                    assert!(contiguous(&got), "indices are contiguous");
                    assert!(Some(got[0] as usize) == spec, "the match is anchored where the kind requires");
                }
                assert!(s as u32 == spec_score(h, &i.cfg, i.kind, &got), "score == fzf scheme on the reported alignment");
            } else {
                assert!(s == 0);
            }
        }
    }
    kani::cover!(if N <= H { r.is_some() } else { r.is_none() });
    std::mem::forget(m);
}

/// score-only and indices entry points return the same value; a second call on the same matcher
/// returns the same value again (C10: independent of call history)
pub fn entry_agree<const ALG: u8, const H: usize, const N: usize, const K: u8>() {
    let i = inputs::<H, N, K>();
    let mut m = small_matcher(i.cfg.clone(), crate::fuzzy_optimal::verif_optimal::SLAB);
    let mut idx = Vec::with_capacity(N + 2);
    let r1 = call::<ALG, true>(&mut m, &i.hay, &i.needle, &mut idx);
    let r2 = call::<ALG, false>(&mut m, &i.hay, &i.needle, &mut Vec::new());
    assert!(r1 == r2, "score-only and indices variants agree");
    kani::cover!(if N <= H { r1.is_some() } else { r1.is_none() });
    std::mem::forget(m);
}

/// canary: must FAIL
pub fn entry_canary() {
    let i = inputs::<2, 2, 0>();
    let mut m = small_matcher(i.cfg.clone(), 8);
    let r = call::<EXACT, false>(&mut m, &i.hay, &i.needle, &mut Vec::new());
    std::mem::forget(m);
    assert!(r.is_none());
}
