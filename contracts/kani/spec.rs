// Specification layer (oracles) shared by all matcher contracts.  Injected as `crate::verif_spec`.
//
// Written from the PROPERTY STATEMENTS with literal numbers, not from the crate's constants:
//   16 per match, gap 3 then 1 (floored at 0), boundary bonuses 10/9/8, camel/number 5,
//   consecutive bonus >= 4 inheriting the run's first bonus, first bonus doubled.
// Per-character normalisation is the crate's `Char::normalize`, which property C16 pins to the
// Unicode data by complete proofs; per-character classes of ASCII are pinned by `c03_class_ascii`.
#![allow(dead_code)]
use crate::chars::{AsciiChar, Char, CharClass};
use crate::Config;

// ----------------------------------------------------------------------------------------------
// configurations
// ----------------------------------------------------------------------------------------------
#[derive(Clone, Copy, PartialEq, Eq)]
pub enum Bonuses {
    Default,
    Paths,
}

/// the three ways a user can obtain bonus settings: DEFAULT, DEFAULT.match_paths(), set_match_paths()
pub fn base_config(k: u8) -> (Config, Bonuses) {
    match k % 3 {
        0 => (Config::DEFAULT, Bonuses::Default),
        1 => (Config::DEFAULT.match_paths(), Bonuses::Paths),
        _ => {
            let mut c = Config::DEFAULT;
            c.set_match_paths();
            (c, Bonuses::Paths)
        }
    }
}

pub fn any_config() -> (Config, Bonuses) {
    let (mut c, b) = base_config(kani::any());
    c.ignore_case = kani::any();
    c.normalize = kani::any();
    c.prefer_prefix = kani::any();
    (c, b)
}

/// base configuration `k` (concrete) with symbolic ignore_case / normalize, prefix preference off
pub fn sym_config(k: u8) -> (Config, Bonuses) {
    let (mut c, b) = base_config(k);
    c.ignore_case = kani::any();
    c.normalize = kani::any();
    c.prefer_prefix = false;
    (c, b)
}

/// configuration with prefix preference off (C03 is stated for that case)
pub fn any_config_no_prefix() -> (Config, Bonuses) {
    let (mut c, b) = any_config();
    c.prefer_prefix = false;
    (c, b)
}

pub fn class_of(k: u8) -> CharClass {
    match k % 7 {
        0 => CharClass::Whitespace,
        1 => CharClass::NonWord,
        2 => CharClass::Delimiter,
        3 => CharClass::Lower,
        4 => CharClass::Upper,
        5 => CharClass::Letter,
        _ => CharClass::Number,
    }
}

// ----------------------------------------------------------------------------------------------
// bonus rules, literal numbers
// ----------------------------------------------------------------------------------------------
pub fn spec_bonus(prev: CharClass, cur: CharClass, b: Bonuses) -> u16 {
    let white: u16 = match b {
        Bonuses::Default => 10,
        Bonuses::Paths => 8,
    };
    let delimiter: u16 = 9;
    let non_word: u16 = 8;
    let camel_123: u16 = 5;
    let is_word = matches!(cur, CharClass::Lower | CharClass::Upper | CharClass::Letter | CharClass::Number);
    if is_word {
        match prev {
            CharClass::Whitespace => return white,
            CharClass::Delimiter => return delimiter,
            CharClass::NonWord => return non_word,
            _ => {}
        }
    }
    if (prev == CharClass::Lower && cur == CharClass::Upper) || (prev != CharClass::Number && cur == CharClass::Number) {
        camel_123
    } else if cur == CharClass::Whitespace {
        white
    } else if cur == CharClass::NonWord {
        non_word
    } else {
        0
    }
}

pub fn spec_initial_class(b: Bonuses) -> CharClass {
    match b {
        Bonuses::Default => CharClass::Whitespace,
        Bonuses::Paths => CharClass::Delimiter,
    }
}

// ----------------------------------------------------------------------------------------------
// relations on strings
// ----------------------------------------------------------------------------------------------
#[inline(always)]
pub fn matches<H: Char + PartialEq<N>, N: Char>(h: H, n: N, cfg: &Config) -> bool {
    h.normalize(cfg) == n
}

/// needle occurs in order in the normalised haystack
pub fn spec_subseq<H: Char + PartialEq<N>, N: Char>(hay: &[H], needle: &[N], cfg: &Config) -> bool {
    let mut j = 0;
    let mut i = 0;
    while i < hay.len() {
        if j < needle.len() && matches(hay[i], needle[j], cfg) {
            j += 1;
        }
        i += 1;
    }
    j == needle.len()
}

/// needle occurs contiguously at `at`
pub fn spec_occurs_at<H: Char + PartialEq<N>, N: Char>(hay: &[H], needle: &[N], at: usize, cfg: &Config) -> bool {
    if at + needle.len() > hay.len() {
        return false;
    }
    let mut k = 0;
    while k < needle.len() {
        if !matches(hay[at + k], needle[k], cfg) {
            return false;
        }
        k += 1;
    }
    true
}

pub fn spec_prev_class<H: Char>(hay: &[H], i: usize, cfg: &Config) -> CharClass {
    if i == 0 {
        cfg.initial_char_class
    } else {
        hay[i - 1].char_class(cfg)
    }
}

pub fn spec_bonus_at<H: Char>(hay: &[H], i: usize, cfg: &Config, b: Bonuses) -> u16 {
    spec_bonus(spec_prev_class(hay, i, cfg), hay[i].char_class(cfg), b)
}

/// the fzf scheme evaluated on the alignment `idx` (strictly increasing positions in `hay`),
/// prefix preference off; computed in u32 so that a wrapped u16 result is visible
pub fn spec_score<H: Char>(hay: &[H], cfg: &Config, b: Bonuses, idx: &[u32]) -> u32 {
    let i0 = idx[0] as usize;
    let b0 = spec_bonus_at(hay, i0, cfg, b) as u32;
    let mut score: u32 = 16 + 2 * b0;
    let mut first_bonus = b0;
    let mut k = 1;
    while k < idx.len() {
        let i = idx[k] as usize;
        let gap = i - idx[k - 1] as usize - 1;
        let mut bonus = spec_bonus_at(hay, i, cfg, b) as u32;
        if gap == 0 {
            if bonus >= 8 && bonus > first_bonus {
                first_bonus = bonus;
            }
            bonus = core::cmp::max(core::cmp::max(bonus, first_bonus), 4);
        } else {
            score = score.saturating_sub(3);
            let mut g = 1;
            while g < gap {
                score = score.saturating_sub(1);
                g += 1;
            }
            first_bonus = bonus;
        }
        score += 16 + bonus;
        k += 1;
    }
    score
}

/// the witness contract W of C02 for the indices appended by a successful call
pub fn spec_witness<H: Char + PartialEq<N>, N: Char>(hay: &[H], needle: &[N], cfg: &Config, idx: &[u32]) -> bool {
    if idx.len() != needle.len() {
        return false;
    }
    let mut k = 0;
    while k < idx.len() {
        let i = idx[k] as usize;
        if i >= hay.len() {
            return false;
        }
        if k > 0 && idx[k - 1] >= idx[k] {
            return false;
        }
        if !matches(hay[i], needle[k], cfg) {
            return false;
        }
        k += 1;
    }
    true
}

pub fn contiguous(idx: &[u32]) -> bool {
    let mut k = 1;
    while k < idx.len() {
        if idx[k] != idx[k - 1] + 1 {
            return false;
        }
        k += 1;
    }
    true
}

/// needle is "already normalised" as the matcher documentation requires of callers
pub fn needle_normalized_ascii(needle: &[u8], cfg: &Config) -> bool {
    let mut k = 0;
    while k < needle.len() {
        if needle[k] >= 128 {
            return false;
        }
        if cfg.ignore_case && needle[k] >= b'A' && needle[k] <= b'Z' {
            return false;
        }
        k += 1;
    }
    true
}

pub fn all_ascii(s: &[u8]) -> bool {
    let mut k = 0;
    while k < s.len() {
        if s[k] >= 128 {
            return false;
        }
        k += 1;
    }
    true
}

/// a Matcher around a small slab (see DESIGN 2.1: stricter environment than the 135 KB one);
/// must be `mem::forget`-ed by the harness because Drop frees with the real layout
pub fn small_matcher(cfg: Config, slab_bytes: usize) -> crate::Matcher {
    crate::Matcher {
        config: cfg,
        slab: crate::matrix::verif_matrix::slab_with_size(slab_bytes),
    }
}

pub fn ascii(s: &[u8]) -> &[AsciiChar] {
    AsciiChar::cast(s)
}

/// precondition of `calculate_score`, derived from its call sites: `hay[start]` matches
/// `needle[0]` and matching `needle[1..]` greedily forward in `hay[start+1..end]` consumes the
/// last needle character exactly at `end-1`.  Returns the greedy positions.
pub fn greedy_window<H: Char + PartialEq<N>, N: Char, const NN: usize>(
    hay: &[H],
    needle: &[N],
    start: usize,
    end: usize,
    cfg: &Config,
) -> Option<[u32; NN]> {
    let mut pos = [0u32; NN];
    if needle.len() != NN || !(start < end && end <= hay.len()) {
        return None;
    }
    if !matches(hay[start], needle[0], cfg) {
        return None;
    }
    pos[0] = start as u32;
    let mut j = 1;
    let mut i = start + 1;
    while i < end {
        if j < NN && matches(hay[i], needle[j], cfg) {
            pos[j] = i as u32;
            j += 1;
            if j == NN && i != end - 1 {
                return None;
            }
        }
        i += 1;
    }
    if j != NN {
        return None;
    }
    if pos[NN - 1] as usize != end - 1 {
        return None;
    }
    Some(pos)
}


pub fn prior_indices() -> Vec<u32> {
    let mut v = Vec::new();
    if kani::any() {
        v.push(kani::any());
        if kani::any() {
            v.push(kani::any());
        }
    }
    v
}

/// `idx` == `old` followed by exactly `n` new entries; returns the new part's start
pub fn prior_untouched(idx: &[u32], old: &[u32]) -> bool {
    if idx.len() < old.len() {
        return false;
    }
    let mut k = 0;
    while k < old.len() {
        if idx[k] != old[k] {
            return false;
        }
        k += 1;
    }
    true
}

/// start of the leftmost occurrence whose first character earns the highest bonus
pub fn spec_best_occurrence<H: Char + PartialEq<N>, N: Char>(hay: &[H], needle: &[N], cfg: &Config, kind: Bonuses) -> Option<usize> {
    let mut best: Option<(usize, u16)> = None;
    let mut at = 0;
    while at + needle.len() <= hay.len() {
        if spec_occurs_at(hay, needle, at, cfg) {
            let b = spec_bonus_at(hay, at, cfg, kind);
            match best {
                Some((_, bb)) if bb >= b => {}
                _ => best = Some((at, b)),
            }
        }
        at += 1;
    }
    best.map(|x| x.0)
}

pub fn first_match<H: Char + PartialEq<N>, N: Char>(hay: &[H], c: N, from: usize, cfg: &Config) -> Option<usize> {
    let mut i = from;
    while i < hay.len() {
        if matches(hay[i], c, cfg) {
            return Some(i);
        }
        i += 1;
    }
    None
}

pub fn last_match<H: Char + PartialEq<N>, N: Char>(hay: &[H], c: N, from: usize, cfg: &Config) -> Option<usize> {
    let mut i = hay.len();
    while i > from {
        i -= 1;
        if matches(hay[i], c, cfg) {
            return Some(i);
        }
    }
    None
}
