// String-level contracts for matcher/src/fuzzy_optimal.rs (C01 decision, C02 witness, C03 score,
// C04 ranking quality, C10 history independence).  Bounded.  Injected as `fuzzy_optimal::verif_optimal`.
//
// Shapes: H = haystack length = end of the prefilter window, N = needle length, START = 0 | 1,
// K = base configuration.  Precondition (ASCII x ASCII) = postcondition of prefilter_ascii
// (obligations c01-prefilter-ascii-*): hay[START] is the first occurrence of needle[0] from START,
// the needle is a subsequence of hay[START..H], and hay[H-1] is the last occurrence of the last
// needle character.  The matcher runs on a 256-byte slab (DESIGN 2.1): any access outside the
// computed layout is an out-of-bounds error.
use crate::chars::AsciiChar;
use crate::verif_spec::*;
use crate::Config;

pub const SLAB: usize = 256;

struct In<const H: usize, const N: usize> {
    hay: [u8; H],
    needle: [u8; N],
    cfg: Config,
    kind: Bonuses,
    greedy_end: usize,
}

fn greedy_end_of<const N: usize>(hay: &[AsciiChar], needle: &[AsciiChar], start: usize, cfg: &Config) -> Option<usize> {
    let mut j = 0;
    let mut i = start;
    while i < hay.len() {
        if j < N && matches(hay[i], needle[j], cfg) {
            j += 1;
            if j == N {
                return Some(i + 1);
            }
        }
        i += 1;
    }
    None
}

fn inputs<const H: usize, const N: usize, const START: usize, const K: u8>() -> In<H, N> {
    let hay: [u8; H] = kani::any();
    let needle: [u8; N] = kani::any();
    kani::assume(all_ascii(&hay));
    let (cfg, kind) = sym_config(K);
    kani::assume(needle_normalized_ascii(&needle, &cfg));
    let h = ascii(&hay);
    let n = ascii(&needle);
    kani::assume(matches(h[START], n[0], &cfg));
    let ge = greedy_end_of::<N>(h, n, START, &cfg);
    kani::assume(ge.is_some());
    kani::assume(matches(h[H - 1], n[N - 1], &cfg));
    In { hay, needle, cfg, kind, greedy_end: ge.unwrap() }
}

fn run<const INDICES: bool, const H: usize, const N: usize, const START: usize>(
    m: &mut crate::Matcher,
    i: &In<H, N>,
    idx: &mut Vec<u32>,
) -> Option<u16> {
    m.fuzzy_match_optimal::<INDICES, AsciiChar, AsciiChar>(ascii(&i.hay), ascii(&i.needle), START, i.greedy_end, H, idx)
}

/// W + score == scheme(indices); always Some for ASCII under the prefilter's postcondition
pub fn opt_witness_and_score<const H: usize, const N: usize, const START: usize, const K: u8>() {
    let i = inputs::<H, N, START, K>();
    let mut m = small_matcher(i.cfg.clone(), SLAB);
    let p0: u32 = kani::any();
    let mut idx = Vec::with_capacity(N + 2);
    idx.push(p0);
    let r = run::<true, H, N, START>(&mut m, &i, &mut idx);
    assert!(r.is_some(), "the optimal matcher succeeds whenever the prefilter found the needle");
    assert!(idx.len() == 1 + N && idx[0] == p0, "one index per needle character is appended, earlier content untouched");
    let mut got = [0u32; N];
    let mut k = 0;
    while k < N {
        got[k] = idx[1 + k];
        k += 1;
    }
    assert!(spec_witness(ascii(&i.hay), ascii(&i.needle), &i.cfg, &got), "indices are a valid witness");
    assert!(got[0] as usize >= START);
    assert!(r.unwrap() as u32 == spec_score(ascii(&i.hay), &i.cfg, i.kind, &got), "score == fzf scheme on the reported alignment");
    kani::cover!(H - START == N || got[0] as usize > START);
    std::mem::forget(m);
}

pub fn opt_agree<const H: usize, const N: usize, const START: usize, const K: u8>() {
    let i = inputs::<H, N, START, K>();
    let mut m = small_matcher(i.cfg.clone(), SLAB);
    let mut idx = Vec::with_capacity(N + 2);
    let r = run::<true, H, N, START>(&mut m, &i, &mut idx);
    // second call on the SAME matcher (its slab now holds the first call's data): also C10's
    // "a matcher that has served earlier calls returns what a fresh one returns" for this pair
    let r2 = run::<false, H, N, START>(&mut m, &i, &mut Vec::new());
    assert!(r == r2, "score-only and indices variants agree");
    kani::cover!(true);
    std::mem::forget(m);
}

// ---------------------------------------------------------------------------------------------
// C04: bounded above by the true optimum, bounded below by the naive recurrence
// ---------------------------------------------------------------------------------------------

/// maximum of the fzf scheme over ALL alignments of the needle in hay[START..]
fn spec_best<const H: usize, const N: usize, const START: usize>(i: &In<H, N>) -> u32 {
    let h = ascii(&i.hay);
    let n = ascii(&i.needle);
    let mut best = 0u32;
    if N == 2 {
        let mut a = START;
        while a < H {
            let mut b = a + 1;
            while b < H {
                if matches(h[a], n[0], &i.cfg) && matches(h[b], n[1], &i.cfg) {
                    let s = spec_score(h, &i.cfg, i.kind, &[a as u32, b as u32]);
                    if s > best {
                        best = s;
                    }
                }
                b += 1;
            }
            a += 1;
        }
    } else if N == 3 {
        let mut a = START;
        while a < H {
            let mut b = a + 1;
            while b < H {
                let mut c = b + 1;
                while c < H {
                    if matches(h[a], n[0], &i.cfg) && matches(h[b], n[1], &i.cfg) && matches(h[c], n[2], &i.cfg) {
                        let s = spec_score(h, &i.cfg, i.kind, &[a as u32, b as u32, c as u32]);
                        if s > best {
                            best = s;
                        }
                    }
                    c += 1;
                }
                b += 1;
            }
            a += 1;
        }
    }
    best
}

pub fn opt_at_most_best<const H: usize, const N: usize, const START: usize, const K: u8>() {
    let i = inputs::<H, N, START, K>();
    let mut m = small_matcher(i.cfg.clone(), SLAB);
    let r = run::<false, H, N, START>(&mut m, &i, &mut Vec::new());
    let best = spec_best::<H, N, START>(&i);
    assert!(r.is_some());
    assert!(r.unwrap() as u32 <= best, "the fuzzy score never exceeds the maximum over all alignments");
    kani::cover!((r.unwrap() as u32) == best);
    std::mem::forget(m);
}

#[derive(Clone, Copy)]
struct Cell {
    valid: bool,
    score: u32,
    run_bonus: u32,
}

/// README two-matrix affine-gap recurrence, evaluated naively on the full N x (H-START) matrix
/// (no row offsets, no diagonal compression), literal numbers:
///   M[0][j]   = 16 + 2*bonus[j]                                   if needle[0] matches column j
///   P[i][j]   = max(M[i][j-1] - 3, P[i][j-1] - 1) floored at 0
///   M[i][j]   = 16 + max(M[i-1][j-1] + run bonus, P[i-1][j-1] + bonus[j])  if needle[i] matches column j
fn spec_recurrence<const H: usize, const N: usize, const START: usize>(i: &In<H, N>) -> u32 {
    let h = ascii(&i.hay);
    let n = ascii(&i.needle);
    let invalid = Cell { valid: false, score: 0, run_bonus: 0 };
    let mut m = [[invalid; H]; N];
    let mut p = [[(false, 0u32); H]; N];
    let mut row = 0;
    while row < N {
        // M[row][..]
        let mut j = START;
        while j < H {
            if matches(h[j], n[row], &i.cfg) {
                let bonus = spec_bonus_at(h, j, &i.cfg, i.kind) as u32;
                if row == 0 {
                    m[0][j] = Cell { valid: true, score: 16 + 2 * bonus, run_bonus: bonus };
                } else if j > START {
                    let dm = m[row - 1][j - 1];
                    let dp = p[row - 1][j - 1];
                    let via_match = if dm.valid {
                        let mut run = if dm.run_bonus > 4 { dm.run_bonus } else { 4 };
                        if bonus >= 8 && bonus > run {
                            run = bonus;
                        }
                        Some((dm.score + if run > bonus { run } else { bonus }, run))
                    } else {
                        None
                    };
                    let via_gap = if dp.0 { Some(dp.1 + bonus) } else { None };
                    m[row][j] = match (via_match, via_gap) {
                        (Some((a, run)), Some(b)) => {
                            if a > b {
                                Cell { valid: true, score: a + 16, run_bonus: run }
                            } else {
                                Cell { valid: true, score: b + 16, run_bonus: bonus }
                            }
                        }
                        (Some((a, run)), None) => Cell { valid: true, score: a + 16, run_bonus: run },
                        (None, Some(b)) => Cell { valid: true, score: b + 16, run_bonus: bonus },
                        (None, None) => invalid,
                    };
                }
            }
            j += 1;
        }
        // P[row][..]
        let mut j = START + 1;
        while j < H {
            let from_m = m[row][j - 1];
            let from_p = p[row][j - 1];
            let a = if from_m.valid { Some(from_m.score.saturating_sub(3)) } else { None };
            let b = if from_p.0 { Some(from_p.1.saturating_sub(1)) } else { None };
            p[row][j] = match (a, b) {
                (Some(a), Some(b)) => (true, if a > b { a } else { b }),
                (Some(a), None) => (true, a),
                (None, Some(b)) => (true, b),
                (None, None) => (false, 0),
            };
            j += 1;
        }
        row += 1;
    }
    let mut best = 0;
    let mut j = START;
    while j < H {
        if m[N - 1][j].valid && m[N - 1][j].score > best {
            best = m[N - 1][j].score;
        }
        j += 1;
    }
    best
}

pub fn opt_at_least_recurrence<const H: usize, const N: usize, const START: usize, const K: u8>() {
    let i = inputs::<H, N, START, K>();
    let mut m = small_matcher(i.cfg.clone(), SLAB);
    let r = run::<false, H, N, START>(&mut m, &i, &mut Vec::new());
    let rec = spec_recurrence::<H, N, START>(&i);
    assert!(r.is_some());
    assert!(r.unwrap() as u32 >= rec, "the fuzzy score is never lower than the naive two-matrix recurrence");
    kani::cover!(r.unwrap() as u32 == rec);
    std::mem::forget(m);
}

/// prefix preference never lowers the score and raises it by at most the prefix bonus (8)
pub fn opt_prefer_prefix<const H: usize, const N: usize, const START: usize, const K: u8>() {
    let i = inputs::<H, N, START, K>();
    let mut m = small_matcher(i.cfg.clone(), SLAB);
    let r = run::<false, H, N, START>(&mut m, &i, &mut Vec::new());
    m.config.prefer_prefix = true;
    let rp = run::<false, H, N, START>(&mut m, &i, &mut Vec::new());
    assert!(r.is_some() && rp.is_some());
    assert!(rp.unwrap() >= r.unwrap() && rp.unwrap() <= r.unwrap() + 8, "prefer_prefix raises the score by 0..=8");
    kani::cover!(rp.unwrap() > r.unwrap());
    std::mem::forget(m);
}

/// C10 history independence: the result does not depend on what an earlier call left in the slab
pub fn opt_history_independent<const H: usize, const N: usize, const START: usize, const K: u8, const SZ: usize>() {
    let i = inputs::<H, N, START, K>();
    // SZ = a slab just large enough for this shape (the layout is checked against it by CBMC's
    // bounds checks), so that "arbitrary prior content" is SZ symbolic bytes
    let mut fresh = small_matcher(i.cfg.clone(), SZ);
    let mut used = small_matcher(i.cfg.clone(), SZ);
    let junk: [u8; SZ] = kani::any();
    unsafe { std::ptr::copy_nonoverlapping(junk.as_ptr(), crate::matrix::verif_matrix::slab_ptr(&used.slab), SZ) };
    let mut idx1 = Vec::with_capacity(N + 2);
    let mut idx2 = Vec::with_capacity(N + 2);
    let r1 = run::<true, H, N, START>(&mut fresh, &i, &mut idx1);
    let r2 = run::<true, H, N, START>(&mut used, &i, &mut idx2);
    assert!(r1 == r2, "same score from a fresh matcher and from one with arbitrary scratch content");
    assert!(idx1.len() == idx2.len());
    let mut k = 0;
    while k < N {
        assert!(idx1[k] == idx2[k], "same indices from a fresh matcher and from one with arbitrary scratch content");
        k += 1;
    }
    kani::cover!(true);
    std::mem::forget(fresh);
    std::mem::forget(used);
}

// ---------------------------------------------------------------------------------------------
// MatcherDataView::setup, the first phase of fuzzy_match_optimal, against its own contract on a
// code-point haystack (the only representation for which it can return false).
//   requires (call site in fuzzy_match_optimal after prefilter_non_ascii): 2 <= N <= H, the view was
//     just allocated for (window, N) from a slab holding ARBITRARY earlier content, window[0] matches
//     needle[0] and window[H-1] matches the last needle character
//   ensures: returns true <=> the needle is a normalised subsequence of the window; the window copy
//     is normalised and bonus[i] is the position bonus of i; when true, row_offs[k] is the position of
//     needle[k] in the leftmost embedding for EVERY k < N (what populate_matrix and the trace-back
//     index with -- an entry left unwritten is stale scratch memory)
// The haystack is `[char; H]` holding ASCII values: the generic code under contract is the
// `H = char` instantiation, the character-level functions stay on their ASCII fast path.
// ---------------------------------------------------------------------------------------------
pub fn opt_setup_char<const H: usize, const N: usize, const K: u8>() {
    let hb: [u8; H] = kani::any();
    let needle: [u8; N] = kani::any();
    kani::assume(all_ascii(&hb));
    let mut hay = ['\0'; H];
    let mut i = 0;
    while i < H {
        hay[i] = hb[i] as char;
        i += 1;
    }
    let (cfg, kind) = sym_config(K);
    kani::assume(needle_normalized_ascii(&needle, &cfg));
    let n = ascii(&needle);
    kani::assume(matches(hay[0], n[0], &cfg) && matches(hay[H - 1], n[N - 1], &cfg));
    let mut m = small_matcher(cfg.clone(), SLAB);
    let junk: [u8; 128] = kani::any();
    unsafe { std::ptr::copy_nonoverlapping(junk.as_ptr(), crate::matrix::verif_matrix::slab_ptr(&m.slab), 128) };
    let mut view = m.slab.alloc(&hay[..], N).unwrap();
    let r = view.setup::<true, AsciiChar>(n, cfg.initial_char_class, &cfg, 0);
    let expect = spec_subseq(&hay[..], n, &cfg);
    assert!(r == expect, "setup reports a match exactly when the needle is a normalised subsequence of the window");
    let mut i = 0;
    while i < H {
        assert!(view.haystack[i] == crate::chars::Char::normalize(hay[i], &cfg), "the window copy is normalised");
        assert!(view.bonus[i] as u16 == spec_bonus_at(&hay[..], i, &cfg, kind), "bonus[i] is the position bonus of i");
        i += 1;
    }
    if r {
        let mut pos = 0;
        let mut k = 0;
        while k < N {
            let p = first_match(&hay[..], n[k], pos, &cfg);
            assert!(p.is_some() && view.row_offs[k] as usize == p.unwrap(), "row_offs[k] is the position of needle[k] in the leftmost embedding, for every k");
            pos = p.unwrap() + 1;
            k += 1;
        }
    }
    kani::cover!(r);
    kani::cover!(!r);
    std::mem::forget(m);
}

/// canary: must FAIL
pub fn opt_canary() {
    let i = inputs::<4, 2, 0, 0>();
    let mut m = small_matcher(i.cfg.clone(), SLAB);
    let r = run::<false, 4, 2, 0>(&mut m, &i, &mut Vec::new());
    std::mem::forget(m);
    assert!(r.unwrap() < 40);
}

// ---------------------------------------------------------------------------------------------
// The contract of fuzzy_match_optimal as an executable stub (modular rule: the dispatchers in
// lib.rs are checked against the callee's CONTRACT, the callee against its body by the
// obligations above).  Precondition (asserted): what the obligations above assume, i.e. the
// prefilter's postcondition.  Postcondition: Some <=> the needle is a normalised subsequence of
// haystack[start..end]; on Some, one valid witness is appended and the score is the fzf scheme on it
// (the forward-greedy alignment is returned: one behaviour the contract allows; the callers under
// check return the result unchanged).
// ---------------------------------------------------------------------------------------------
pub fn opt_contract<const INDICES: bool, H: crate::chars::Char + PartialEq<N>, N: crate::chars::Char>(
    m: &mut crate::Matcher,
    haystack: &[H],
    needle: &[N],
    start: usize,
    greedy_end: usize,
    end: usize,
    indices: &mut Vec<u32>,
) -> Option<u16> {
    assert!(needle.len() >= 2 && start < greedy_end && greedy_end <= end && end <= haystack.len(), "precondition of fuzzy_match_optimal: window from the prefilter");
    assert!(matches(haystack[start], needle[0], &m.config), "precondition of fuzzy_match_optimal: the window starts at an occurrence of the first needle character");
    let kind = if m.config.bonus_boundary_white == 10 { Bonuses::Default } else { Bonuses::Paths };
    let mut pos = [0u32; 8];
    let mut j = 0;
    let mut i = start;
    while i < end {
        if j < needle.len() && matches(haystack[i], needle[j], &m.config) {
            pos[j] = i as u32;
            j += 1;
        }
        i += 1;
    }
    if j < needle.len() {
        return None;
    }
    let got = &pos[..needle.len()];
    if INDICES {
        let mut k = 0;
        while k < got.len() {
            indices.push(got[k]);
            k += 1;
        }
    }
    Some(spec_score(haystack, &m.config, kind, got) as u16)
}
