// Step-function contracts for matcher/src/fuzzy_optimal.rs (properties C03, C04, C10).
// Injected as `fuzzy_optimal::verif_optimal_steps`.  All obligations here are loop-free over the
// full domain of their arguments: complete proofs.
//
// The `kani::requires / kani::ensures` attributes for `next_m_cell` and `p_score` are placed on the
// REAL functions by the injector (see catalogue.ATTRS); the closures call the spec functions below.
use super::*;
use crate::matrix::ScoreCell;

/// largest score a cell may hold such that one more step cannot overflow u16
pub const STEP_HEADROOM: u16 = u16::MAX - 26;

/// README recurrence, M-matrix step, literal numbers:
///   M[i][j] = 16 + max( M[i-1][j-1] + consecutive_bonus , P[i-1][j-1] + bonus )
pub fn spec_next_m(p: u16, bonus: u16, m: ScoreCell) -> (u32, bool, u16) {
    let unmatched = m.score == 0 && m.consecutive_bonus == 0 && m.matched;
    if unmatched {
        return (p as u32 + bonus as u32 + 16, false, bonus);
    }
    let mut consecutive = core::cmp::max(m.consecutive_bonus as u16, 4);
    if bonus >= 8 && bonus > consecutive {
        consecutive = bonus;
    }
    let via_match = m.score as u32 + core::cmp::max(consecutive, bonus) as u32;
    let via_gap = p as u32 + bonus as u32;
    if via_match > via_gap {
        (via_match + 16, true, consecutive)
    } else {
        (via_gap + 16, false, bonus)
    }
}

pub fn next_m_cell_post(p: u16, bonus: u16, m: ScoreCell, r: &ScoreCell) -> bool {
    let (s, matched, cb) = spec_next_m(p, bonus, m);
    r.score as u32 == s
        && r.matched == matched
        && r.consecutive_bonus as u16 == cb
        && r.consecutive_bonus <= 10
        && r.score as u32 <= core::cmp::max(p, m.score) as u32 + 26
        && r.score >= 16
}

/// README recurrence, P-matrix step: P[i][j] = max(M[i][j-1] - 3, P[i][j-1] - 1), floored at 0
pub fn p_score_post(pp: u16, pm: u16, r: &(u16, bool)) -> bool {
    let open = pm.saturating_sub(3);
    let extend = pp.saturating_sub(1);
    r.0 == core::cmp::max(open, extend) && r.1 == (open > extend) && r.0 <= core::cmp::max(pp, pm)
}

fn any_cell() -> ScoreCell {
    ScoreCell {
        score: kani::any(),
        consecutive_bonus: kani::any(),
        matched: kani::any(),
    }
}

#[kani::proof_for_contract(next_m_cell)]
fn c03_next_m_cell_contract() {
    let p: u16 = kani::any();
    let b: u16 = kani::any();
    let m = any_cell();
    let r = next_m_cell(p, b, m);
    // the `ensures` exists only under cfg(kani); stated again so that CBMC's counterexample replays natively
    assert!(next_m_cell_post(p, b, m, &r), "next_m_cell: README recurrence, M-matrix step (score, matched flag, carried bonus)");
    kani::cover!(r.matched);
}

#[kani::proof_for_contract(p_score)]
fn c03_p_score_contract() {
    let a: u16 = kani::any();
    let b: u16 = kani::any();
    let r = p_score(a, b);
    // the `ensures` exists only under cfg(kani); stated again so that CBMC's counterexample replays natively
    assert!(p_score_post(a, b, &r), "p_score: README recurrence, P-matrix step (score and came-from-M flag)");
    kani::cover!(r.1);
}

/// the sentinel the step functions rely on can never be produced by a step: a computed cell has
/// score >= 16 (so it is distinguishable from UNMATCHED = {0, 0, true})
#[kani::proof]
fn c03_unmatched_sentinel() {
    assert!(UNMATCHED.score == 0 && UNMATCHED.consecutive_bonus == 0 && UNMATCHED.matched);
    let p: u16 = kani::any();
    let b: u16 = kani::any();
    let m = any_cell();
    kani::assume(b <= 10 && m.consecutive_bonus <= 10 && p <= STEP_HEADROOM && m.score <= STEP_HEADROOM);
    let r = next_m_cell(p, b, m);
    assert!(r != UNMATCHED);
    kani::cover!(true);
}

/// canary: must FAIL
#[kani::proof]
fn c03_steps_canary() {
    let p: u16 = kani::any();
    let b: u16 = kani::any();
    let m = any_cell();
    kani::assume(b <= 10 && m.consecutive_bonus <= 10 && p <= STEP_HEADROOM && m.score <= STEP_HEADROOM);
    let r = next_m_cell(p, b, m);
    assert!(r.score < 100);
}
