// Contract for src/pattern.rs: MultiPattern::score is the conjunction of its column patterns (C15).
// Bounded.  Injected as `pattern::verif_multipattern` in the `nucleo` crate.
use super::*;
use nucleo_matcher::{Config, Utf32Str};

fn col(bytes: &[u8; 2]) -> Utf32String {
    // built directly (String conversion is C17's subject and would drag the grapheme segmenter in)
    Utf32String::Ascii(unsafe { String::from_utf8_unchecked(bytes.to_vec()) }.into_boxed_str())
}

/// two columns, one positive and one negated one-character atom (concrete pattern texts, parsed by
/// the real parser), symbolic two-byte ASCII haystack per column
pub fn multipattern_two_columns() {
    let mut mp = MultiPattern::new(2);
    mp.reparse(0, "a", CaseMatching::Ignore, Normalization::Smart, false);
    mp.reparse(1, "!b", CaseMatching::Ignore, Normalization::Smart, false);
    let h0: [u8; 2] = kani::any();
    let h1: [u8; 2] = kani::any();
    kani::assume(h0[0] < 128 && h0[1] < 128 && h1[0] < 128 && h1[1] < 128);
    kani::assume(!(h0[0] == b'\r' && h0[1] == b'\n') && !(h1[0] == b'\r' && h1[1] == b'\n'));
    let cols = [col(&h0), col(&h1)];
    let mut m = Matcher::new(Config::DEFAULT);
    let r = mp.score(&cols, &mut m);
    // reference: each column pattern on its own column, on the same kind of matcher
    let e0 = mp.column_pattern(0).score(Utf32Str::Ascii(&h0), &mut m);
    let e1 = mp.column_pattern(1).score(Utf32Str::Ascii(&h1), &mut m);
    let expect = match (e0, e1) {
        (Some(a), Some(b)) => Some(a + b),
        _ => None,
    };
    assert!(r == expect, "a multi-column pattern is the conjunction of its column patterns, scores add up");
    // and the column patterns mean what their text says
    let has_a = h0[0] | 32 == b'a' || h0[1] | 32 == b'a';
    let has_b = h1[0] | 32 == b'b' || h1[1] | 32 == b'b';
    assert!(r.is_some() == (has_a && !has_b), "column 0 must contain 'a', column 1 must not contain 'b'");
    kani::cover!(r.is_some());
    kani::cover!(r.is_none());
}

/// an empty multi pattern matches everything with score 0
pub fn multipattern_empty() {
    let mp = MultiPattern::new(2);
    let h0: [u8; 2] = kani::any();
    kani::assume(h0[0] < 128 && h0[1] < 128 && !(h0[0] == b'\r' && h0[1] == b'\n'));
    let cols = [col(&h0), col(&h0)];
    let mut m = Matcher::new(Config::DEFAULT);
    assert!(mp.is_empty());
    assert!(mp.score(&cols, &mut m) == Some(0));
    kani::cover!(true);
}
