// Contracts for matcher/src/matrix.rs (property C10: the matcher never forms references outside
// its own scratch allocation; C02: the back-pointer cell encoding).  Injected as `matrix::verif_matrix`.
use super::*;
use crate::chars::AsciiChar;

/// A slab of only `bytes` bytes (8-aligned like `MatcherData`).  Used by string-level harnesses:
/// a *stricter* environment than the real 135 KB slab -- any access beyond the computed layout is
/// an out-of-bounds error instead of landing in slack space.  The owning Matcher must be
/// `mem::forget`-ed (Drop frees with the real layout).
pub fn slab_with_size(bytes: usize) -> MatrixSlab {
    let layout = Layout::from_size_align(bytes, 8).unwrap();
    let ptr = unsafe { alloc_zeroed(layout) };
    MatrixSlab(NonNull::new(ptr).unwrap())
}

pub fn slab_ptr(s: &MatrixSlab) -> *mut u8 {
    s.0.as_ptr()
}

/// K-cell: the two back-pointer bits stored by `set` are exactly what `get` returns.
#[kani::proof]
fn c02_matrix_cell_roundtrip() {
    let p: bool = kani::any();
    let m: bool = kani::any();
    let mut cell = MatrixCell(kani::any());
    cell.set(p, m);
    assert!(cell.get(false) == p, "get(false) returns the P-matrix back pointer");
    assert!(cell.get(true) == m, "get(true) returns the M-matrix back pointer");
    kani::cover!(p && !m);
}

/// the guards of `MatrixSlab::alloc`, restated (c10_alloc_guards ties them to the real function)
fn alloc_guards(h: usize, n: usize) -> bool {
    h * n <= 100 * 1024 && h <= u16::MAX as usize && n <= 2048
}

fn view_inside<T>(base: *mut u8, p: *mut [T], slab: usize) -> bool {
    let start = (p as *mut T as usize).wrapping_sub(base as usize);
    let len = p.len();
    let bytes = len.checked_mul(size_of::<T>());
    match bytes {
        Some(b) => match start.checked_add(b) {
            Some(e) => e <= slab,
            None => false,
        },
        None => false,
    }
}

fn disjoint<A, B>(base: *mut u8, a: *mut [A], b: *mut [B]) -> bool {
    let sa = (a as *mut A as usize).wrapping_sub(base as usize);
    let ea = sa + a.len() * size_of::<A>();
    let sb = (b as *mut B as usize).wrapping_sub(base as usize);
    let eb = sb + b.len() * size_of::<B>();
    ea <= sb || eb <= sa
}

/// K-layout: for ALL (haystack_len, needle_len) that pass the guards of `alloc`, each of the five
/// views handed out by `fieds_from_ptr` lies inside the slab, the views are pairwise disjoint and
/// aligned, and the matrix view is large enough for every row the DP writes.
fn layout_contract<C: Char>() {
    let h: usize = kani::any();
    let n: usize = kani::any();
    kani::assume(n >= 1 && n <= h && h <= u32::MAX as usize);
    kani::assume(alloc_guards(h, n));
    let layout = MatrixLayout::<C>::new(h, n);
    let slab = size_of::<MatcherData>();
    kani::assume(layout.layout.size() <= slab); // second guard of alloc
    let backing = MatrixSlab::new();
    let base = backing.0.as_ptr();
    let (hay, bonus, rows, cells, matrix) = unsafe { layout.fieds_from_ptr(backing.0) };
    assert!(view_inside(base, hay, slab), "haystack view lies inside the slab");
    assert!(view_inside(base, bonus, slab), "bonus view lies inside the slab");
    assert!(view_inside(base, rows, slab), "row-offset view lies inside the slab");
    assert!(view_inside(base, cells, slab), "score-row view lies inside the slab");
    assert!(view_inside(base, matrix, slab), "matrix view lies inside the slab");
    assert!(hay.len() == h && bonus.len() == h && rows.len() == n && cells.len() == h + 1 - n);
    assert!(matrix.len() >= (h + 1 - n) * n, "matrix view has room for needle_len rows of width h+1-n");
    assert!(disjoint(base, hay, bonus) && disjoint(base, hay, rows) && disjoint(base, hay, cells) && disjoint(base, hay, matrix));
    assert!(disjoint(base, bonus, rows) && disjoint(base, bonus, cells) && disjoint(base, bonus, matrix));
    assert!(disjoint(base, rows, cells) && disjoint(base, rows, matrix) && disjoint(base, cells, matrix));
    assert!((hay as *mut C as usize) % std::mem::align_of::<C>() == 0);
    assert!((rows as *mut u16 as usize) % 2 == 0);
    assert!((cells as *mut ScoreCell as usize) % 8 == 0);
    kani::cover!(h > 6000 && n > 4);
}

#[kani::proof]
fn c10_layout_views_ascii() {
    layout_contract::<AsciiChar>();
}

#[kani::proof]
fn c10_layout_views_char() {
    layout_contract::<char>();
}

/// K-alloc: the real `alloc` refuses exactly when a guard fails, and on success hands out views
/// with the lengths the DP relies on.  The haystack is a prefix of a large constant buffer.
static BIG: [u8; 70_000] = [b'a'; 70_000];

#[kani::proof]
fn c10_alloc_guards() {
    let h: usize = kani::any();
    let n: usize = kani::any();
    kani::assume(h <= 70_000 && n >= 1 && n <= h);
    let hay = &AsciiChar::cast(&BIG)[..h];
    let mut slab = MatrixSlab::new();
    let slab_bytes = size_of::<MatcherData>();
    let base = slab.0.as_ptr() as usize;
    let must_refuse = !alloc_guards(h, n);
    match slab.alloc(hay, n) {
        None => {
            // refusing is always safe; it must happen whenever a guard fails
            kani::cover!(must_refuse);
        }
        Some(view) => {
            assert!(!must_refuse, "alloc refuses when haystack*needle > 100Ki, haystack > u16::MAX or needle > 2048");
            assert!(view.haystack.len() == h && view.bonus.len() == h);
            assert!(view.row_offs.len() == n && view.current_row.len() == h + 1 - n);
            let m = view.matrix_cells.as_ptr() as usize - base;
            assert!(m + view.matrix_cells.len() <= slab_bytes, "the &mut [MatrixCell] handed out lies inside the slab");
            assert!(view.matrix_cells.len() >= (h + 1 - n) * n);
            kani::cover!(h > 1000);
        }
    }
}

/// the same for the code-point representation (haystack of `char`)
static BIG_CHARS: [char; 40_000] = ['a'; 40_000];

#[kani::proof]
fn c10_alloc_guards_char() {
    let h: usize = kani::any();
    let n: usize = kani::any();
    kani::assume(h <= 40_000 && n >= 1 && n <= h);
    let hay = &BIG_CHARS[..h];
    let mut slab = MatrixSlab::new();
    let slab_bytes = size_of::<MatcherData>();
    let base = slab.0.as_ptr() as usize;
    let must_refuse = !alloc_guards(h, n);
    match slab.alloc(hay, n) {
        None => {
            kani::cover!(must_refuse);
        }
        Some(view) => {
            assert!(!must_refuse, "alloc refuses when haystack*needle > 100Ki, haystack > u16::MAX or needle > 2048");
            assert!(view.haystack.len() == h && view.bonus.len() == h);
            assert!(view.row_offs.len() == n && view.current_row.len() == h + 1 - n);
            let m = view.matrix_cells.as_ptr() as usize - base;
            assert!(m + view.matrix_cells.len() <= slab_bytes, "the &mut [MatrixCell] handed out lies inside the slab");
            assert!(view.matrix_cells.len() >= (h + 1 - n) * n);
            kani::cover!(h > 1000);
        }
    }
}

/// canary: must FAIL
#[kani::proof]
fn c10_layout_canary() {
    let h: usize = kani::any();
    let n: usize = kani::any();
    kani::assume(n >= 1 && n <= h && h <= 4096 && alloc_guards(h, n));
    let layout = MatrixLayout::<AsciiChar>::new(h, n);
    assert!(layout.layout.size() <= 4096);
}

/// stub for `MatrixSlab::alloc` used by the "fallback" obligations: the slab refuses every request
/// (refusing is always allowed by alloc's contract; the real refusal condition is pinned by
/// `c10-alloc-guards`), so the dispatchers must take their greedy fallback at small sizes too.
pub fn alloc_refuses<'a, C: Char>(_slab: &'a mut MatrixSlab, _haystack: &[C], _needle_len: usize) -> Option<MatcherDataView<'a, C>> {
    None
}
