#!/usr/bin/env python3
"""Builds the Unicode oracle tables used by the C16 contracts.

Sources (both offline):
  * Python's `unicodedata` (Unicode 14.0): simple case folding is derived as
      casefold(c) if that is one code point, else lower(c) if that is one code
      point, else c            (status C + S of CaseFolding.txt)
    and NFKD for the Latin-normalisation clause of the property statement.
  * regex-syntax's `case_folding_simple.rs` (orbits, Unicode 16.0) and `age.rs`
    from the offline cargo registry, used (a) to cross-check the derived
    folding on code points assigned by 14.0 and (b) to decide what to expect of
    code points assigned after 14.0: assigned in 15.0 and in no orbit =>
    identity; unassigned at 15.0 (the version the crate's table states) =>
    identity.  Code points on which the sources cannot give a definite answer
    are written to FOLD_UNCONSTRAINED and are *not* constrained (never alarmed).

Output: <outdir>/oracle_unicode.rs and <outdir>/oracle_unicode.json (stats).
The block list is the property statement's "documented blocks": the list in the
rustdoc of `chars::normalize`.
"""
import sys, os, re, json, glob, unicodedata as ud

out = sys.argv[1] if len(sys.argv) > 1 else os.path.join(os.path.dirname(os.path.abspath(__file__)), "..", "generated")
os.makedirs(out, exist_ok=True)

# documented blocks (rustdoc of chars::normalize)
BLOCKS = [
    (0x0080, 0x00FF, "Latin-1 Supplement"),
    (0x0100, 0x017F, "Latin Extended-A"),
    (0x0180, 0x024F, "Latin Extended-B"),
    (0x0250, 0x02AF, "IPA Extensions"),
    (0x1E00, 0x1EFF, "Latin Extended Additional"),
    (0x2070, 0x209F, "Superscripts and Subscripts"),
]


def scalars():
    for u in range(0x110000):
        if 0xD800 <= u <= 0xDFFF:
            continue
        yield u


def py_fold(u):
    c = chr(u)
    cf = c.casefold()
    if len(cf) == 1:
        return ord(cf)
    lo = c.lower()
    if len(lo) == 1:
        return ord(lo)
    return u


def parse_char(tok):
    tok = tok.strip()
    assert tok[0] == "'" and tok[-1] == "'", tok
    body = tok[1:-1]
    if body.startswith("\\u{"):
        return int(body[3:-1], 16)
    if body.startswith("\\"):
        return {"\\'": 39, "\\\\": 92, "\\n": 10, "\\r": 13, "\\t": 9, "\\0": 0}[body]
    assert len(body) == 1, body
    return ord(body)


CHAR_RX = r"'(?:\\u\{[0-9a-fA-F]+\}|\\.|[^'\\])'"


def load_regex_syntax():
    cands = sorted(glob.glob(os.path.expanduser("~/.cargo/registry/src/*/regex-syntax-*/src/unicode_tables")))
    if not cands:
        return None, None, None
    d = cands[-1]
    orbits = {}
    txt = open(os.path.join(d, "case_folding_simple.rs"), encoding="utf-8").read()
    for m in re.finditer(r"\((%s),\s*&\[([^\]]*)\]\)" % CHAR_RX, txt):
        k = parse_char(m.group(1))
        vs = [parse_char(x) for x in re.findall(CHAR_RX, m.group(2))]
        orbits[k] = set(vs) | {k}
    age = open(os.path.join(d, "age.rs"), encoding="utf-8").read()
    ages = {}
    for m in re.finditer(r"pub const (V\d+_\d+): &'static \[\(char, char\)\] = &\[(.*?)\];", age, re.S):
        rs = []
        for p in re.finditer(r"\((%s),\s*(%s)\)" % (CHAR_RX, CHAR_RX), m.group(2)):
            rs.append((parse_char(p.group(1)), parse_char(p.group(2))))
        ages[m.group(1)] = rs
    return orbits, ages, d


orbits, ages, rs_dir = load_regex_syntax()
stats = {"python_unidata": ud.unidata_version, "regex_syntax_tables": rs_dir}


def in_ranges(u, rs):
    return any(a <= u <= b for a, b in rs)


v15 = ages.get("V15_0", []) if ages else []
later = []
if ages:
    for k, rs in ages.items():
        mj, mn = map(int, k[1:].split("_"))
        if (mj, mn) > (15, 0):
            later += rs

fold = {}
unconstrained = []
disagree = []
for u in scalars():
    assigned14 = ud.category(chr(u)) != "Cn"
    if assigned14:
        e = py_fold(u)
        if orbits is not None and e != u:
            if u not in orbits or e not in orbits[u]:
                disagree.append(u)
                unconstrained.append(u)
                continue
        if e != u:
            fold[u] = e
    else:
        if orbits is None:
            # no second source: cannot tell what 15.0 says about code points python does not know
            unconstrained.append(u)
        elif in_ranges(u, v15):
            if u in orbits:
                unconstrained.append(u)  # a 15.0 code point with a case orbit: direction unknown offline
        else:
            pass  # unassigned at 15.0 => identity expected
stats["fold_pairs"] = len(fold)
stats["fold_unconstrained"] = len(unconstrained)
stats["fold_source_disagreements"] = ["U+%04X" % u for u in disagree]
# sanity of the oracle itself (idempotent)
stats["oracle_fold_idempotent"] = all(fold.get(e, e) == e for e in fold.values())

norm = {}
for a, b, _ in BLOCKS:
    for u in range(a, b + 1):
        d = ud.normalize("NFKD", chr(u))
        if not d:
            continue
        h = d[0]
        if ord(h) < 128 and (h.isalpha() or h.isdigit()) and all(ud.category(x).startswith("M") for x in d[1:]):
            norm[u] = ord(h)
stats["norm_required_pairs"] = len(norm)


def rs_pairs(name, d):
    items = sorted(d.items())
    body = ",".join("(%d,%d)" % kv for kv in items)
    return "pub const %s: [(u32, u32); %d] = [%s];\n" % (name, len(items), body)


with open(os.path.join(out, "oracle_unicode.rs"), "w") as f:
    f.write("// GENERATED by oracle/gen_unicode.py -- do not edit\n")
    f.write(rs_pairs("FOLD_ORACLE", fold))
    f.write(rs_pairs("NORM_ORACLE", norm))
    f.write("pub const NORM_BLOCKS: [(u32, u32); %d] = [%s];\n" % (len(BLOCKS), ",".join("(%d,%d)" % (a, b) for a, b, _ in BLOCKS)))
    f.write("pub const FOLD_UNCONSTRAINED: [u32; %d] = [%s];\n" % (len(unconstrained), ",".join(map(str, sorted(unconstrained)))))
json.dump(stats, open(os.path.join(out, "oracle_unicode.json"), "w"), indent=1)
print(json.dumps(stats))
